#!/usr/bin/env python3
"""Detection matrix, several changes at a time: like run_seeded.py, but every lane works in its own scratch
worktree of /repo HEAD and its own scratch copy of the harness under /var/tmp (so /repo is never touched and
/verif/sim may not be edited while this runs only because the copies are taken at the start). For every kept
seeded change (and every sensitivity patch) the change is applied to the lane's worktree, the lane's harness
copy is rebuilt against it, the checks are run (quick tier, no evidence, the check the change was aimed at in
full, the others at most 5 s each; for sensitivity patches every check in full) and the violation classes are
recorded in seeded/<name>/meta.json (`detected_by`) and seeded/MATRIX.md.
usage: run_seeded_parallel.py [-j LANES] [name ...]   (default: all, 4 lanes)"""
import json, os, re, subprocess, sys, glob, shutil, threading, queue
CHECKS = [c["property_id"] for c in json.load(open("/verif/MANIFEST.json"))["checks"]]
def sh(cmd, **kw):
    return subprocess.run(cmd, shell=True, capture_output=True, text=True, **kw)
def lane_setup(i):
    wt, sim, out = f"/var/tmp/h3-lane-{i}-wt", f"/var/tmp/h3-lane-{i}-sim", f"/var/tmp/h3-lane-{i}-out"
    sh(f"git -C /repo worktree remove --force {wt}")
    r = sh(f"git -C /repo worktree add -q --detach {wt} HEAD")
    assert r.returncode == 0, r.stderr
    os.makedirs(sim, exist_ok=True); os.makedirs(out, exist_ok=True)
    sh(f"rsync -a --delete --exclude target --exclude build.log /verif/sim/ {sim}/")
    sh(f"sed -i 's#path = \"/repo/#path = \"{wt}/#' {sim}/Cargo.toml")
    if not os.path.exists(f"{sim}/target") and os.path.exists("/var/tmp/h3-scratch-sim/target"):
        sh(f"cp -r /var/tmp/h3-scratch-sim/target {sim}/target")
    shutil.copy("/verif/known_findings.json", out + "/known_findings.json")
    return wt, sim, out
def run_on(lane, patch, aimed):
    wt, sim, out = lane
    sh(f"git -C {wt} checkout -q -- . && git -C {wt} clean -fdq")
    r = sh(f"git -C {wt} apply {patch}")
    if r.returncode != 0:
        return {"_error": "patch does not apply: " + r.stderr.strip()[:200]}
    b = sh(f"cd {sim} && CARGO_NET_OFFLINE=true cargo build --release --offline")
    if b.returncode != 0:
        return {"_error": "harness does not build with the change: " + b.stderr[-300:]}
    res = {}
    for c in CHECKS:
        env = dict(os.environ, VERIF_DIR=out)
        cmd = [f"{sim}/target/release/h3sim", c, "--no-evidence", "--report-classes", "3", "--shrink-budget", "100"]
        if aimed is not None and c != aimed:
            cmd += ["--max-wall", "5"]
        p = subprocess.run(cmd, capture_output=True, text=True, env=env)
        classes = re.findall(r"^  class: (.*?)  \(", p.stdout, re.M)
        extra = re.findall(r"unreported class: (.*?) \(", p.stdout)
        if p.returncode == 1:
            res[c] = sorted(set(classes + extra))
        elif p.returncode != 0:
            res[c] = ["HARNESS-ERROR " + (p.stderr.strip().splitlines() or ["?"])[-1][:200]]
    shutil.rmtree(out + "/replays", ignore_errors=True)
    return res
def main():
    args = sys.argv[1:]
    lanes_n = 4
    if args[:1] == ["-j"]:
        lanes_n = int(args[1]); args = args[2:]
    names = args
    items = []
    for d in sorted(glob.glob("/verif/seeded/*/")):
        n = os.path.basename(d.rstrip("/"))
        if n.startswith("_") or not os.path.exists(d + "patch.diff"): continue
        if names and n not in names: continue
        items.append((n, d + "patch.diff", d + "meta.json"))
    for p in sorted(glob.glob("/verif/sensitivity/*.diff")):
        n = "sensitivity/" + os.path.basename(p)
        if names and n not in names and os.path.basename(p) not in names: continue
        items.append((n, p, None))
    q = queue.Queue()
    for it in items: q.put(it)
    rows, lock = [], threading.Lock()
    def worker(i):
        lane = lane_setup(i)
        while True:
            try: n, patch, meta = q.get_nowait()
            except queue.Empty: break
            aimed = json.load(open(meta))["breaks_property"] if meta else None
            res = run_on(lane, patch, aimed)
            with lock:
                print(n, json.dumps(res)[:400], flush=True)
                rows.append((n, res))
                if meta:
                    m = json.load(open(meta)); m["detected_by"] = res
                    m["detection_run"] = {"tier": "quick", "seed": "default", "checks_run": CHECKS, "note": "the check of the property the change was aimed at ran its full quick tier; the other checks ran at most 5 s each (several changes were examined at a time, each in its own scratch worktree and harness copy, so those 5 s cover fewer runs than on an idle machine)"}
                    json.dump(m, open(meta, "w"), indent=1)
        sh(f"git -C /repo worktree remove --force {lane[0]}")
    ts = [threading.Thread(target=worker, args=(i,)) for i in range(lanes_n)]
    for t in ts: t.start()
    for t in ts: t.join()
    path = "/verif/seeded/MATRIX.md"
    old = {}
    if names and os.path.exists(path):
        for l in open(path):
            mm = re.match(r"\| (\S+) \| (.*) \|$", l.strip())
            if mm and mm.group(1) not in ("change", "---"): old[mm.group(1)] = mm.group(2)
    for n, res in rows:
        if "_error" in res: old[n] = res["_error"]
        else: old[n] = "; ".join(f"**{c}**: " + ", ".join(v)[:300] for c, v in sorted(res.items())) or "not detected by any check (quick tier)"
    with open(path, "w") as f:
        f.write("# Which checks catch which seeded changes (quick tier, default seed; for seeded changes the checks the change was not aimed at ran at most 5 s each, for sensitivity patches every check ran its full quick tier; at most three violation classes are listed per check)\n\n| change | detected by (violation classes) |\n|---|---|\n")
        for n in sorted(old): f.write(f"| {n} | {old[n]} |\n")
if __name__ == "__main__":
    main()

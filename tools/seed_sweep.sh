#!/bin/sh
# usage: tools/seed_sweep.sh <h3sim binary> <seed> [<seed> ...]
# False-alarm control: every check at quick tier under other seeds; prints one line per (check, seed) and
# every VIOLATION / HARNESS line. Exit 1 if any check did not exit 0.
BIN="$1"; shift
OUT=/var/tmp/h3-sweep-$$; mkdir -p "$OUT"; cp /verif/known_findings.json "$OUT/"
export VERIF_DIR="$OUT"
bad=0
for s in "$@"; do
  for id in C01 C02 C03 C04 C05 C06 C07 C08 C09 C10 C13 C14 C17 C18 C19 C20; do
    "$BIN" $id --no-evidence --seed $s > "$OUT/log" 2>&1; rc=$?
    echo "seed=$s $(grep '^check .*:' "$OUT/log") exit=$rc"
    grep -E "^(VIOLATION|HARNESS|  class|  detail)" "$OUT/log"
    [ $rc -ne 0 ] && { bad=1; mkdir -p /var/tmp/h3-sweep-keep; cp -r "$OUT/replays" /var/tmp/h3-sweep-keep/ 2>/dev/null; }
  done
done
rm -rf "$OUT"
exit $bad

#!/usr/bin/env python3
"""Print the compact detection table for DESIGN.md from seeded/*/meta.json and seeded/MATRIX.md."""
import json, glob, os, re
rows = []
for d in sorted(glob.glob('/verif/seeded/*/')):
    n = os.path.basename(d.rstrip('/'))
    if n.startswith('_') or not os.path.exists(d + 'meta.json'): continue
    m = json.load(open(d + 'meta.json'))
    det = m.get('detected_by', {})
    files = sorted(set(re.findall(r'^\+\+\+ b/(\S+)', open(d + 'patch.diff').read(), re.M)))
    by = ', '.join(sorted(k for k in det if not k.startswith('_'))) or ('not run' if not det else 'none')
    what = m['needs_to_manifest']
    what = what if len(what) <= 125 else what[:122].rsplit(' ', 1)[0] + ' …'
    rows.append((n, m['breaks_property'], ', '.join(f.replace('h3/src/', '') for f in files), what, by))
print('| change | aimed at | file | mechanism | reported by |\n|---|---|---|---|---|')
for r in rows: print('| ' + ' | '.join(r) + ' |')
print()
print('| re-introduced defect | reported by |\n|---|---|')
for l in open('/verif/seeded/MATRIX.md'):
    mm = re.match(r'\| (sensitivity/\S+) \| (.*) \|$', l.strip())
    if mm:
        ids = sorted(set(re.findall(r'\*\*(C\d\d)\*\*', mm.group(2))))
        print(f"| {mm.group(1).replace('sensitivity/','')} | {', '.join(ids) or mm.group(2)[:80]} |")

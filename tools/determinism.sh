#!/bin/sh
# usage: tools/determinism.sh [h3sim binary] [seeds...]
# Determinism proof across processes and worker counts: for every check and every seed, the same runs
# are executed in three separate processes (16 workers, 5 workers, 1 worker for a prefix) and the
# per-run fingerprints (run index, trace hash of the full event log, schedule signature, number of
# choices drawn, violation class) are diffed. Any difference is printed and the exit status is 1.
BIN="${1:-/verif/sim/target/release/h3sim}"; [ $# -gt 0 ] && shift
SEEDS="${*:-1 2 20260925}"
OUT=/var/tmp/h3-determinism; rm -rf "$OUT"; mkdir -p "$OUT"; cp /verif/known_findings.json "$OUT/"
export VERIF_DIR="$OUT"
bad=0; total=0
for id in C01 C02 C03 C04 C05 C06 C07 C08 C09 C10 C13 C14 C17 C18 C19 C20; do
  case $id in C05) n=4000;; C17) n=3000;; *) n=30000;; esac
  for s in $SEEDS; do
    "$BIN" $id --no-evidence --seed $s --runs $n --workers 16 --max-wall 900 --dump-hashes "$OUT/a" >/dev/null 2>&1
    "$BIN" $id --no-evidence --seed $s --runs $n --workers 5  --max-wall 900 --dump-hashes "$OUT/b" >/dev/null 2>&1
    "$BIN" $id --no-evidence --seed $s --runs $((n/10)) --workers 1 --max-wall 900 --dump-hashes "$OUT/c" >/dev/null 2>&1
    head -n $((n/10)) "$OUT/a" > "$OUT/a10"
    la=$(wc -l < "$OUT/a"); total=$((total+la))
    if cmp -s "$OUT/a" "$OUT/b" && cmp -s "$OUT/a10" "$OUT/c" && [ "$la" -eq "$n" ]; then
      echo "$id seed=$s: $la runs identical across 3 processes (16/5/1 workers)"
    else
      echo "$id seed=$s: DIFFERENT ($(diff "$OUT/a" "$OUT/b" | grep -c '^<') lines 16 vs 5 workers; $(diff "$OUT/a10" "$OUT/c" | grep -c '^<') lines vs 1 worker; $la lines)"; bad=1
    fi
  done
done
echo "total runs compared: $total"
rm -rf "$OUT"
exit $bad

#!/usr/bin/env python3
"""Generate /verif/MANIFEST.json from the table below (single source of truth for what is claimed)."""
import json, subprocess, sys

ENGINES = [
    {"name": "E1", "path": "sim/src/{choice,exec,net,obs,runner}.rs", "serves_properties": [],
     "kind_free_text": "simexec (single-threaded deterministic executor; every scheduling decision drawn from the choice source) + SimQuic (in-memory QUIC-like transport implementing the h3::quic traits; chunking, write acceptance, pends, FIN/RESET/STOP timing, stream credit, datagram loss/dup/reorder all drawn) + seeded search, choice-vector shrinking and replay"},
]

# id -> dict(level, text, note, technique, design_ref, engine)
CHECKS = {
 "C01": dict(level="exploration", engine="E1", design_ref="DESIGN.md §5 C01",
   technique="deterministic simulation: seeded search over generated messages, transport chunkings, partial-write/back-pressure patterns, stream-credit delays and task interleavings of a real h3 client and server; record/compare oracle (what was obtained = what was submitted) plus reference QPACK decoding of HEADERS on the wire",
   text="Real h3 client and real h3 server on the two ends of SimQuic exchange 1-3 generated request/response pairs (methods incl. CONNECT/extended CONNECT, targets, colliding header names, bodies 0..64 KiB in pieces incl. empty pieces and multi-chunk Bufs, trailers; whole or split streams, sequential or concurrent) while the simulator draws chunk sizes, write acceptance, pends, credit grants, FIN timing, accept order, task order and spurious polls. Oracle: every call succeeds, server obtains exactly the submitted request and client exactly the submitted response (per-name value order, identical body bytes, one clean end, trailers), no connection error, no stuck call at quiescence, HEADERS on the wire decode (reference codec) to the submitted fields. Back-pressure and delay only, no faults. Sampling, not proof.",
   note="Trusted: SimQuic, simexec, refs::qpack/frames, http/bytes crates, the application models (documented call pattern; the last SendRequest is kept until all exchanges are over because CONNECTION_CLOSE legitimately discards unread data). Header names/values are restricted to ones http and h3 accept."),
 "C02": dict(level="fault_enumeration", engine="E1", design_ref="DESIGN.md §5 C02",
   technique="deterministic simulation: seeded search over transport chunkings and end-of-stream/RESET positions of grammar-generated frame strings, judged against an RFC 9114 §7.1 reference segmenter; metamorphic comparison across chunkings",
   text="Seeded simulation of h3's real FrameStream over a simulated receive stream: frame strings from a grammar (all known/HTTP-2/unknown types, all varint forms, right/short/long payloads, truncations; a systematic family of short strings first) are delivered under 1-3 drawn chunkings with FIN, open or overtaking RESET endings; the frames acted on and the terminal outcome must equal an independent RFC 9114 §7.1/§7.2 reference and must not depend on the chunking. Sampling, not proof; end positions and the short-string family are enumerated systematically.",
   note="Trusted: refs::frames / refs::varint (written from the RFC), SimQuic receive path, simexec, the reader task obeying the poll_next/poll_data contract. Assumes transport chunks are non-empty. 0x41 is not generated as a frame type."),
 "C03": dict(level="exploration", engine="E1", design_ref="DESIGN.md §5 C03",
   technique="deterministic simulation: seeded search over frame sequences, endings (FIN / RESET at a drawn offset / open), chunkings and task interleavings against real h3 server and client, judged by an RFC 9114 §4.1 reference state machine",
   text="Real h3 server and client (connection driver, request stream state machine, FrameStream, QPACK) over SimQuic receive a scripted peer's frame sequence (valid sequence plus at most one deviation over the full alphabet incl. DATA(0), unknown frames, control-only frames, PUSH_PROMISE to a server, HTTP/2 types) ending in FIN, RESET at a drawn byte offset or left open, under drawn chunkings, FIN timing, task order and spurious polls; the application follows the documented call pattern and its complete history (message, body bytes, end-of-body, trailers, connection outcome, close code) is compared with the reference state machine. Sampling over seeds, not enumeration.",
   note="Trusted: the reference state machine in checks/c03.rs (walk), refs::frames/qpack/varint, SimQuic, simexec. Payloads of generated frames are well-formed so that one RFC rule applies. Client-side FIN/PUSH_PROMISE before a response is unconstrained; under RESET only prefix-consistency is required."),
 "C04": dict(level="exploration", engine="E1", design_ref="DESIGN.md §5 C04",
   technique="deterministic simulation: seeded search over scripted peer behaviours on unidirectional streams (stream types, control frame sequences, FIN/RESET positions), arrival orders, chunkings and stream-credit/back-pressure faults on the endpoint's own outgoing streams; admissible-set reference model plus effect checks (applied SETTINGS, GOAWAY taking effect) and a two-chunking metamorphic comparison",
   text="Real h3 server and client drivers over SimQuic face a scripted peer that opens 1-5 unidirectional streams of every kind (type varints in all forms, closed/reset before the type completes) and sends a control frame sequence with at most one deviation, ended by FIN/RESET at a drawn position, while the simulator withholds or delays the endpoint's own stream credit (so that the optional 4th stream pends for ever or for a while) and pends/partially accepts its writes. Oracle: the connection outcome (driver result and effective close code at exact quiescence) is in the admissible set computed by a reference model of RFC 9114 §6.2/§7.2.4/§5.2 (none if the peer did nothing wrong; a driver that only notices when polled again later counts as parked), applied SETTINGS are visible, a valid GOAWAY takes effect (accept() ends / new requests refused), and the outcome does not depend on chunking. Sampling, not proof.",
   note="Trusted: reference model in checks/c04.rs, refs codecs, SimQuic, simexec. Unconstrained by scoping: unknown frame before SETTINGS, CANCEL_PUSH to a client, push streams, a RESET control stream; optional codes where a RESET may overtake a stream type or two RFC rules apply to one frame; server accept() may end after a valid GOAWAY before later frames are read."),
 "C06": dict(level="fault_enumeration", engine="E1", design_ref="DESIGN.md §5 C06",
   technique="deterministic simulation with fault injection: adversarial grammar- and byte-mutated peer scripts, one injected fault per run whose kind and script step index are enumerated systematically over the run index, seeded chunkings/interleavings; oracles: caught panics (overflow checks on) and two-stage bounded liveness at exact executor quiescence",
   text="Real h3 servers and clients (documented call patterns, whole and split streams, drawn behaviour after an error) face a scripted adversary: valid traffic mutated at the frame, varint, QPACK-representation and byte level on request, control, QPACK, push, WebTransport and unknown streams, with FIN, RESET, STOP_SENDING, application close (NO_ERROR / error codes), idle timeout, transport internal/undefined errors and stream-level read/write errors injected at every step index 0..23 in systematic order. No h3 call may panic or overflow (release build with overflow checks and debug assertions); after the peer has ended or aborted every stream and granted all credit, every call that waits on a stream must have completed at exact quiescence (a diagnostic re-poll sweep tells a lost wake-up from a missing completion rule); after the connection is closed every h3 future must have completed. Sampling of scripts and schedules; fault kind x step index enumerated.",
   note="Trusted: SimQuic (non-empty chunks, valid ids), simexec's quiescence detection, the application models. Which error is returned is not judged here."),
 "C07": dict(level="exploration", engine="E1", design_ref="DESIGN.md §5 C07",
   technique="deterministic simulation with fault injection: 2-4 concurrent requests between the real endpoint and a reference peer, stream-scoped faults (RESET at a drawn byte offset, STOP_SENDING, malformed message, oversized section, FIN before HEADERS) on a drawn subset, all task/delivery interleavings drawn; oracle: per-request history vs. the generated plan, absence of close(), driver results, echo responses parsed from the wire by the reference codecs",
   text="The real h3 server (echo application) or client (concurrent split requests) handles 2-4 requests against a reference peer. A drawn subset receives exactly one stream-scoped fault; what the application then does with the faulty handle (drop, finish, retry a send) is drawn. Judged at exact quiescence before teardown: the faulty request reports a stream-level error with the appropriate code (remote-terminate with the peer's code, H3_MESSAGE_ERROR with reset+stop observed by the peer, header-too-big with a 431 on the wire, H3_REQUEST_INCOMPLETE), the connection is not closed, the driver reports no error, and every healthy request delivers exactly its own headers, body bytes and trailers and its echo response is complete and correct on the wire. Sampling, not proof.",
   note="Trusted: checks/c07.rs plans and judges, refs codecs, SimQuic, simexec. Client role: wire codes of stop_sending after a malformed/oversized response are not judged; a STOP_SENDING arriving after h3 finished sending may go unnoticed; the peer only stops streams that already exist."),
 "C08": dict(level="exploration", engine="E1", design_ref="DESIGN.md §5 C08",
   technique="deterministic simulation: seeded search over histories interleaving request arrivals (in and out of stream-id order), shutdown(n) calls at drawn moments and request completions on a real h3 server, and over received GOAWAY id sequences on a real h3 client; invariants over the recorded sequential history and the GOAWAY frames parsed from the wire by the reference codec",
   text="Server side: a real h3 server (accept / shutdown(n) loop built on the poll API accept() is made of, echo handlers) receives 1-6 requests whose arrival order is drawn (SimQuic may surface stream 8 before 4) while shutdown(n), n in 0..3, is called 0-3 times at drawn moments. Invariants over the accept task's sequential history and the control stream parsed by the reference codec: GOAWAY ids never increase and are request stream ids; when a GOAWAY(x) is written every stream already handed out has id < x; no stream with id >= an already sent GOAWAY id is handed out; handed-out streams are never reset with H3_REQUEST_REJECTED and are served to completion; rejected streams are reset and stop-sent with H3_REQUEST_REJECTED and lie at or above the last id sent; no arrived stream is ignored. Client side: GOAWAY id sequences (decreasing, equal, increasing, non-request ids, all varint forms): increasing or non-request id => H3_ID_ERROR as driver result and close code; otherwise every send_request begun after the driver processed the GOAWAY is refused as remote-closing and opens no stream. Sampling, not proof.",
   note="Trusted: checks/c08.rs invariants, refs codecs, SimQuic, simexec. accept() is spelled out with poll_accept_request_stream/create_resolver so that shutdown(n) can be interleaved without cancelling a future inside an internal write (accept() is not documented as cancel-safe; see DESIGN §7). Requests racing with the delivery of a GOAWAY are unconstrained."),
 "C09": dict(level="exploration", engine="E1", design_ref="DESIGN.md §5 C09",
   technique="deterministic simulation: seeded search over histories of 0-4 accepted requests with drawn endings (incl. early ends, drops, split halves, held handles), the peer's GOAWAY at a drawn position, all interleavings; reference drain model (handed out / ended / goaway seen) checked for safety over the event history and for bounded liveness at two exact quiescence points",
   text="A real h3 server accepts 0-4 requests from a scripted client; each ends in a drawn way (normal, resolver dropped, FIN or RESET before HEADERS, RESET after HEADERS, malformed or oversized headers, halves dropped at different times, held or never-resolving until released) while the client's GOAWAY arrives at a drawn point. Handle lifetimes are tracked by drop guards. Safety: whenever accept() reports no more requests, every request handed out before has ended (checked over the ordered event log). Liveness: at exact quiescence, once the GOAWAY has been delivered and every handed-out request has ended, accept() must have reported no more requests - checked before and after the held requests are released. Sampling, not proof.",
   note="Trusted: checks/c09.rs drain model and drop guards, SimQuic, simexec's quiescence detection. A request has ended when the application holds no handle of it any more."),
 "C10": dict(level="exploration", engine="E1", design_ref="DESIGN.md §5 C10",
   technique="deterministic simulation: seeded search over limits, field sections sweeping the limit (L-2..L+2), roles, message kinds and the arrival time of the peer's SETTINGS relative to the send call (incl. while send_request waits for stream credit); oracle: accept/refuse decisions vs the RFC 9114 4.2.2 size computed by the reference codec, HEADERS frames measured on the wire, applied peer settings sampled by the simulated transport at the moment the frame is handed over",
   text="Receive: real h3 server/client configured with limit L receive reference-encoded requests, responses and trailers whose size sweeps the limit; accepted iff size <= L, otherwise a header-too-big outcome on that message only (server: 431 on the wire unless 42 exceeds the limit the client advertised), never a connection error, a neighbouring small message unaffected. Send: the reference peer advertises P in SETTINGS written before, during or after h3's send_request / send_response / send_trailers (send_request is additionally made to wait for stream credit); every HEADERS frame on the wire, measured by the reference decoder, is <= the limit that was applied when h3 handed the frame to the transport (sampled by SimQuic through a probe reading the shared settings), and h3 refuses (nothing written) only sections above the limit in force. Sampling, not proof.",
   note="Trusted: refs::qpack size rule and codecs, SimQuic's send_data probe, simexec. Limits above 200000 bytes are exercised on the accept side only. SETTINGS applied while the HEADERS write is blocked cannot be honoured and are not demanded."),
 "C13": dict(level="exploration", engine="E1", design_ref="DESIGN.md §5 C13",
   technique="deterministic simulation: systematic sweep of the builder-option product (2024 configurations, run index mod 2024) each under a seeded write schedule, and seeded search over received SETTINGS payloads with one deviation, chunkings and delays; oracle: reference SETTINGS parser on the wire, applied values read back through accessors, admissible connection error codes",
   text="Send: every combination of the client and server builder options over the size grid {0,1,63,64,16383,16384,2^30-1,2^30,2^62-1,2^62,u64::MAX} is set up over SimQuic (partial writes down to 1 byte, pends, scarce stream credit); build() must complete without panicking and the peer's reference parser must see exactly one complete SETTINGS frame, first, with no identifier twice, no HTTP/2-reserved or non-reserved unknown identifier, and exactly the configured values (absent => default; unrepresentable => 2^62-1 or an error from build()). Receive: SETTINGS payloads with drawn entries, forms and order plus at most one deviation (repeated known id, repeated unknown id, HTTP/2-reserved id, truncated entry) are delivered under drawn chunkings after a drawn delay; defaults are in force before, known ids are applied exactly afterwards, repeated known / reserved ids are H3_SETTINGS_ERROR (driver result and close code), a truncated entry is a connection error. Configurations enumerated, schedules sampled.",
   note="Trusted: refs::frames SETTINGS parser/printer, hook accessors for the two settings fields without a getter, SimQuic, simexec. A repeated unknown identifier may be ignored or rejected."),
 "C14": dict(level="exploration", engine="E1", design_ref="DESIGN.md §5 C14",
   technique="deterministic simulation: seeded search over generated API-call programs, builder configurations and per-call write-acceptance/pend patterns of the transport; history check of the complete per-stream byte logs by a reference RFC 9114 parser",
   text="Generated programs (1-4 exchanges in both roles, empty and multi-chunk buffers, trailers, streams abandoned mid-body, split halves, server shutdown(n) and client shutdown at drawn moments, drawn builder options) run on real h3 endpoints over SimQuic, which accepts writes down to one byte at a time, splits frame headers, pends and withholds stream credit. Afterwards every byte either endpoint wrote on every stream is parsed with the reference codecs: legal uni stream types, SETTINGS first and only allowed frames on the control stream (never finished/reset), only complete HEADERS/DATA/reserved frames in legal order on request streams, length fields consistent, reserved identifiers of the 0x1f*N+0x21 form, no HTTP/2 types or settings, GOAWAY ids non-increasing, DATA payloads concatenating to exactly what send_data was given, HEADERS decoding to what was submitted, and no misuse of the transport traits (overlapping send_data). Sampling, not proof.",
   note="Trusted: checks/wire.rs (reference validator), refs::frames/qpack/varint, SimQuic's byte logs. Futures are awaited to completion except accept(), which is cancelled for shutdown(n) as in the documented select pattern."),
 "C18": dict(level="exploration", engine="E1", design_ref="DESIGN.md §5 C18",
   technique="deterministic simulation: systematic sweep of stream ids 4k (k in 0..2^16 by run index) plus boundary and drawn ids, seeded payloads, seeded consumption patterns of the encoded buffer by the simulated transport, unreliable datagram delivery (drop/duplicate/reorder); oracle: wire bytes vs varint(S/4)||P from the reference varint codec, received (S,P) vs sent, H3_DATAGRAM_ERROR as connection outcome for malformed raw datagrams",
   text="Real h3 client and server with the datagram extension exchange HTTP Datagrams over SimQuic's unreliable datagram channel in either direction: the transport consumes the EncodedDatagram Buf in drawn ways (whole chunks, copy_to_bytes, byte-wise, drawn sizes), and drops, duplicates and reorders datagrams. Every datagram handed to the transport equals varint(S/4) || P; everything the peer's DatagramReader returns is the (S,P) of a datagram that was sent (none invented, duplicates only where injected, nothing lost without an injected drop). Raw byte strings of length 0..9 (lengths 0-1 exhaustively, a systematic slice of length 2, drawn longer ones incl. truncated varints and quarter ids >= 2^60) injected by a scripted peer must decode like the reference or fail with H3_DATAGRAM_ERROR, which then is the driver's result and the effective close code. Ids swept systematically, schedules sampled.",
   note="Trusted: refs::varint, SimQuic datagram channel, simexec. The Quinn datagram adapter is outside this check (see C17)."),
}

NOT_APPLICABLE = {
 "C11": "Quantified over inputs only: encode_stateless/decode_stateless are pure functions of one contiguous buffer or field list; no schedule, chunking, fault or interleaving can change the answer, so it is not a simulation target (differential input generation would be a different technique).",
 "C12": "Quantified over inputs only: whether a decoded field list reaches the application is a pure function of that list evaluated inside one call; its stream-vs-connection scope under concurrency is C07's subject.",
 "C15": "Pure codecs (prefixed integers, Huffman string literals) with no I/O, state, time or concurrency; input enumeration only.",
 "C16": "Pure arithmetic (VarInt, StreamId) with no I/O, state, time or concurrency.",
}
PENDING = "not claimed yet: the check for this property is still being built in this round (see DESIGN.md §5 for the design)"

def main():
    props = [json.loads(l)["id"] for l in open("/verif/properties.jsonl")]
    commits = subprocess.run(["git", "-C", "/repo", "log", "--format=%h %s", "--grep=^verif-hooks"], capture_output=True, text=True).stdout.strip().splitlines()
    checks = []
    for pid in props:
        if pid not in CHECKS:
            continue
        c = CHECKS[pid]
        checks.append({
            "property_id": pid,
            "quick_cmd": f"./check {pid} --tier quick",
            "thorough_cmd": f"./check {pid} --tier thorough",
            "evidence_file": f"/verif/evidence/{pid}.json",
            "replay_cmd_template": f"./check {pid} --replay {{path}}",
            "engine": c["engine"],
            "level_claimed": {"category": c["level"], "text": c["text"], "design_ref": c["design_ref"]},
            "level_note": c["note"],
            "technique": c["technique"],
        })
    for e in ENGINES:
        e["serves_properties"] = [pid for pid in props if pid in CHECKS and CHECKS[pid]["engine"] == e["name"]]
    na = []
    for pid in props:
        if pid in CHECKS:
            continue
        na.append({"property_id": pid, "reason": NOT_APPLICABLE.get(pid, PENDING)})
    m = {
        "version": 1,
        "setup_cmd": "cd /verif/sim && CARGO_NET_OFFLINE=true cargo build --release --offline",
        "hooks": {
            "guard": "cargo feature `verif-hooks` of crate h3 (off by default)",
            "enable": "the harness crate /verif/sim depends on /repo/h3 by path with features = [\"verif-hooks\", \"i-implement-a-third-party-backend-and-opt-into-breaking-changes\"]; every check rebuilds it with `cargo build --release --offline` before running",
            "baseline_off_cmd": "cd /repo && cargo test --workspace --no-fail-fast --offline",
            "source_commits": commits,
            "add_only": True,
        },
        "engines": ENGINES,
        "checks": checks,
        "not_applicable": na,
        "notes": "Technique family: deterministic simulation with fault injection. One choice vector per run decides schedule, faults and workload; failures are shrunk and written to /verif/replays/<id>-<seed>-<run>.json; `./check <ID> --replay <file>` reproduces them. Known findings: /verif/known_findings.json. Exit 2 = harness error.",
    }
    json.dump(m, open("/verif/MANIFEST.json", "w"), indent=1)
    print("wrote MANIFEST.json:", len(checks), "checks,", len(na), "not claimed")

if __name__ == "__main__":
    main()

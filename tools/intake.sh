#!/bin/sh
# usage: tools/intake.sh <property> <suffix letter> <demo filter> [demo command]
# Collects a sub-agent's deliverables from /tmp/mut/<property><suffix>/OUT into seeded/_incoming/<property>-<suffix>,
# removes the agent's worktree and build output, and confirms the change in a fresh scratch worktree.
P="$1"; S="$2"; F="$3"; D="${4:-}"
set -u
mkdir -p "/verif/seeded/_incoming/$P-$S" && cp /tmp/mut/$P$S/OUT/patch.diff /tmp/mut/$P$S/OUT/demo.diff /tmp/mut/$P$S/OUT/README.md "/verif/seeded/_incoming/$P-$S/" || exit 2
rm -rf "/tmp/mut/$P$S/target"; git -C /repo worktree remove --force "/tmp/mut/$P$S"
if [ -n "$D" ]; then DEMO_CMD="$D" /verif/tools/confirm_mutant.sh "/verif/seeded/_incoming/$P-$S" x; else /verif/tools/confirm_mutant.sh "/verif/seeded/_incoming/$P-$S" "$F"; fi
grep "result\|BUILD\|APPLY" "/verif/seeded/_incoming/$P-$S/confirm.log"
grep "^+++ " "/verif/seeded/_incoming/$P-$S/patch.diff"

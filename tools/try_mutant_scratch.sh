#!/bin/sh
# usage: tools/try_mutant_scratch.sh <patch.diff|-> <ID> [<ID> ...]   (extra h3sim args via MUT_ARGS)
# Like try_mutant.sh but leaves /repo alone: the change is applied to a scratch worktree of /repo HEAD
# under /var/tmp and a scratch copy of the harness is built against that worktree. "-" = no patch.
# The scratch harness copy and its target directory are kept between calls (incremental builds);
# remove them with: rm -rf /var/tmp/h3-scratch-sim /var/tmp/h3-scratch-out
set -u
P="$1"; shift
WT=/var/tmp/h3-scratch-wt-$$
SIM=/var/tmp/h3-scratch-sim
OUT=/var/tmp/h3-scratch-out
export CARGO_NET_OFFLINE=true
git -C /repo worktree add -q --detach "$WT" HEAD || exit 2
trap 'git -C /repo worktree remove --force "$WT"' EXIT
if [ "$P" != "-" ]; then git -C "$WT" apply "$P" || { echo "patch does not apply" >&2; exit 2; }; fi
mkdir -p "$SIM" "$OUT"
rsync -a --delete --exclude target --exclude build.log /verif/sim/ "$SIM/"
# stable path for cargo fingerprints
ln -sfn "$WT" /var/tmp/h3-scratch-wt
sed -i 's#path = "/repo/#path = "/var/tmp/h3-scratch-wt/#' "$SIM/Cargo.toml"
(cd "$SIM" && cargo build --release --offline 2>&1 | grep -E "^error" -A8 | head -40)
cp /verif/known_findings.json "$OUT/known_findings.json"
for id in "$@"; do
  VERIF_DIR="$OUT" "$SIM/target/release/h3sim" "$id" --no-evidence ${MUT_ARGS:-} 2>&1 | grep -E "^(VIOLATION|KNOWN|HARNESS|check .*:|  class)" | cut -c1-300
done

#!/bin/sh
# usage: tools/regen_findings.sh
# Regenerates findings/*.json with the current harness: for every repaired defect the fix is reverted in a
# scratch worktree (sensitivity/revert-*.diff), the check that found it is run from a scratch copy of the
# harness, and the minimised replay file of the expected violation is stored. Afterwards every stored file is
# replayed against the repaired tree (from /verif/sim's own build) and must report no violation (or a listed
# known finding). /repo is not touched.
set -u
cd /verif
OUT=/var/tmp/h3-scratch-out
# name | revert patch | check | rule (and an optional fact substring of the class)
LIST='
C02-s1-data-cut-by-fin-on-chunk-boundary|revert-S1-7637e6f.diff|C02|C02.panic
C02-s2-surplus-payload-reparsed|revert-S2-6363bcb.diff|C02|C02.malformed_frame_accepted
C02-s2-short-payload-waits-forever|revert-S2-6363bcb.diff|C02|C02.error_waited_on_forever
C03-s3-empty-data-frame-ends-body|revert-S3-ab24613.diff|C03|C03.end_of_body_reported_early
C04-s4-goaway-lost-when-grease-stream-pends|revert-S4-d0cdd46.diff|C04|C04.goaway_not_acted_on
C04-s13-split-session-id-varint-internal-error|revert-S13-ae0aa3e.diff|C04|C04.spurious_connection_error
C08-s6-goaway-names-served-stream|revert-S6-S16-8c3e411.diff|C08|C08.goaway_below_served_stream kind=boundary
C08-s16-goaway-below-out-of-order-stream|revert-S6-S16-8c3e411.diff|C08|C08.goaway_below_served_stream kind=out_of_order_arrival
C09-s7-accept-hangs-after-early-ended-request|revert-S7-12ccc99.diff|C09|C09.accept_pending_after_drain
C13-s8-setting-above-varint-range-panics|revert-S8-bf4b4d9.diff|C13|C13.panic
C17-s9-recv-id-panics-while-read-pending|revert-S9-e515501.diff|C17|C17.panic
C17-s10-stop-sending-escalates-to-internal-error|revert-S10-b3b3759.diff|C17|C17.stream_error_escalated_to_connection_error
C18-s11-quarter-stream-id-always-zero|revert-S11-234e5d2.diff|C18|C18.buf_chunk_wrong
C19-s12-session-id-is-stream-index|revert-S12-40f99ec.diff|C19|C19.session_id_not_connect_stream_id
C19-s17-accept-uni-not-woken|revert-S17-05d45b2.diff|C19|C19.uni_stream_not_surfaced
C20-s18-table-shrunk-below-its-size|revert-S18-4008c51.diff|C20|C20.table_exceeds_capacity
C20-s19-unreconstructible-required-insert-count-panics|revert-S19-a738dba.diff|C20|C20.panic
C06-s20-field-section-with-more-lines-than-a-header-map-holds-panics|revert-S20-d4f64fd.diff|C06|C06.panic
C07-s21-reset-request-polled-again-closes-connection|revert-S21-791ad44.diff|C07|C07.connection_closed code=H3_FRAME_ERROR
'
last=""
echo "$LIST" | while IFS='|' read -r name patch check want; do
  [ -z "$name" ] && continue
  if [ "$patch $check" != "$last" ]; then
    rm -rf "$OUT/replays"
    MUT_ARGS="--report-classes 40" tools/try_mutant_scratch.sh "/verif/sensitivity/$patch" "$check" > /dev/null 2>&1
    last="$patch $check"
  fi
  f=$(python3 - "$OUT/replays" "$want" <<'EOF'
import json, glob, sys
d, want = sys.argv[1], sys.argv[2]
rule, _, fact = want.partition(' ')
best = None
for f in sorted(glob.glob(d + '/*.json')):
    j = json.load(open(f)); v = j['violation']
    cls = v['rule'] + ' ' + ' '.join(f"{k}={x}" for k, x in sorted(v.get('facts', {}).items()))
    if v['rule'] == rule and fact in cls:
        if best is None or len(j['choices']) < len(json.load(open(best))['choices']): best = f
print(best or '')
EOF
)
  if [ -n "$f" ]; then cp "$f" "findings/$name.json"; echo "$name: $(python3 -c "import json;j=json.load(open('$f'));print(j['violation']['rule'], len(j['choices']), 'choices')")"
  else echo "$name: NO REPLAY FILE FOUND for $want"; fi
done
echo "--- replaying every stored file against the repaired tree"
(cd sim && cargo build --release --offline 2>&1 | grep -E "^error" -A5)
bad=0
for f in findings/*.json; do
  id=$(python3 -c "import json;print(json.load(open('$f'))['property'])")
  r=$(sim/target/release/h3sim "$id" --replay "$f" 2>&1 | tail -1 | cut -c1-400)
  case "$r" in *"no violation"*|KNOWN-FINDING*) ;; *) echo "$f: $r"; bad=1;; esac
done
[ $bad -eq 0 ] && echo "all stored files: no violation on the repaired tree"
exit $bad

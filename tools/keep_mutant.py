#!/usr/bin/env python3
"""Move a confirmed seeded change from seeded/_incoming/<name> to seeded/<name> and write meta.json.
usage: keep_mutant.py <name> <property> <demo filter> <needs-to-manifest text>"""
import json, os, shutil, sys, re
name, prop, filt, needs = sys.argv[1:5]
src = f"/verif/seeded/_incoming/{name}"; dst = f"/verif/seeded/{name}"
os.makedirs(dst, exist_ok=True)
for f in ("patch.diff", "demo.diff", "README.md", "confirm.log"):
    if os.path.exists(f"{src}/{f}"):
        shutil.copy(f"{src}/{f}", f"{dst}/{f}")
log = open(f"{dst}/confirm.log").read()
log = "\n".join(l for l in log.splitlines() if not re.match(r"\s*(Compiling|Finished|Running|Locking|warning|Blocking)", l))
open(f"{dst}/confirm.log", "w").write(log + "\n")
meta = {
    "id": name, "breaks_property": prop, "source": "fresh sub-agent given only the property text and a scratch worktree",
    "needs_to_manifest": needs,
    "demonstration": f"demo.diff; cargo test -p h3 --offline --lib {filt}",
    "confirmed_by_me": {
        "how": f"tools/confirm_mutant.sh seeded/_incoming/{name} {filt} (scratch worktree of /repo HEAD under /var/tmp, removed afterwards)",
        "base_commit": re.search(r"base commit: (\w+)", log).group(1),
        "patch_only_builds_workspace": "BUILD OK" in log,
        "patch_only_h3_lib_tests": re.search(r"== patch only: cargo test.*\n(test result:.*)", log).group(1),
        "patch_plus_demo": re.search(r"== patch \+ demo.*\n((?:test .*\n)+)", log).group(1).strip().splitlines()[-1],
        "demo_only": re.search(r"== demo only.*\n((?:test .*\n)+)", log).group(1).strip().splitlines()[-1],
    },
    "detected_by": {},
}
json.dump(meta, open(f"{dst}/meta.json", "w"), indent=1)
shutil.rmtree(src)
print("kept", dst)

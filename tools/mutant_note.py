#!/usr/bin/env python3
"""Print the 'already studied' note handed to a fresh sub-agent for property <id>: one line per mechanism of the
seeded changes already kept for that property (taken from meta.json needs_to_manifest, which describes the
change, not how it is detected), plus the mechanisms found repeatedly from several property texts.
usage: mutant_note.py <property id>"""
import json, glob, sys
pid = sys.argv[1]
lines = []
for f in sorted(glob.glob('/verif/seeded/*/meta.json')):
    m = json.load(open(f))
    if m['breaks_property'] == pid:
        t = ' '.join(m['needs_to_manifest'].split())
        lines.append('  - ' + (t if len(t) < 260 else t[:257].rsplit(' ', 1)[0] + ' ...'))
common = [
 "FrameDecoder keeping a stale size hint / expected-bytes threshold",
 "WriteBuf::advance or Cursor::advance arithmetic",
 "FrameStream::split / BufRecvStream::split built with new() and forgetting state",
 "VarInt::decode / VarInt::size off-by-one",
 "Frame::decode completeness test, Settings::decode chunk() vs remaining()",
 "poll_recv_trailers look-ahead handling",
 "'at most N items per poll then Pending without a wake-up' in any loop",
 "break instead of continue in the loop identifying incoming uni streams",
 "BufList::push_bytes keeping only the first segment of a received buffer",
 "HeaderMap::with_capacity / append panics for huge field counts (already repaired)",
 "the list / range of HTTP/2-reserved frame types in Frame::decode losing one member",
 "process_goaway / ConnectionInner::shutdown comparison operators (<, <=, ==)",
 "a busy loop inside one poll after a stream ended (AcceptRecvStream::poll_next_varint)",
 "several poll_open_send calls merged into one poll_fn with ready!",
 "poll_connection_error registering the driver's waker only once",
]
print("Changes of the following kinds have ALREADY been studied; do not hand in any of them again, find a DIFFERENT mechanism (another code site, another kind of trigger):")
print('\n'.join(lines))
print("  and, found from other property texts:")
print('\n'.join('  - ' + c for c in common))

#!/bin/sh
# usage: tools/try_mutant.sh <patch.diff> <ID> [<ID> ...]   (extra h3sim args via MUT_ARGS)
# Applies a seeded change to /repo, runs the named checks (no evidence written), and undoes the change.
set -u
P="$1"; shift
cd /repo || exit 2
if [ -n "$(git status --porcelain)" ]; then echo "/repo is not clean" >&2; exit 2; fi
git apply "$P" || { echo "patch does not apply" >&2; exit 2; }
trap 'git -C /repo checkout -- . ' EXIT
for id in "$@"; do
  /verif/check "$id" --no-evidence ${MUT_ARGS:-} 2>&1 | grep -E "^(VIOLATION|KNOWN|HARNESS|check .*:|  class)" | cut -c1-300
done

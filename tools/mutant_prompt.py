#!/usr/bin/env python3
"""Print the prompt given to a fresh sub-agent asked for a property-breaking change.
Usage: mutant_prompt.py <property id> <worktree dir> [variant note]"""
import json, sys
pid, wt = sys.argv[1], sys.argv[2]
note = sys.argv[3] if len(sys.argv) > 3 else ""
p = next(json.loads(l) for l in open('/verif/properties.jsonl') if json.loads(l)['id'] == pid)
print(f"""You are helping to evaluate a verification effort for the Rust crate hyperium/h3 (an HTTP/3 implementation; workspace members h3, h3-quinn, h3-datagram, h3-webtransport).
You have your own scratch git worktree of the repository at {wt}. Work ONLY inside that directory. Never read or write /repo or /verif. The sandbox has no network: always pass --offline to cargo (e.g. `cargo test -p h3 --offline`). Use `CARGO_TARGET_DIR={wt}/target`.

Here is a semantic property that the code base is supposed to satisfy:

  Title: {p['title']}
  Statement: {p['statement']}
  Quantified over: {p['quantifier']['text']}
  Code it is anchored in: {', '.join(p['anchors']['files'])}

YOUR TASK: produce ONE small, realistic source change to the library code (not to tests) in that worktree that BREAKS this property, while
  (a) the workspace still compiles (`cargo build --workspace --offline`), and
  (b) the existing test suite still passes (`cargo test -p h3 --offline`; two tests, request_invalid_frame_after_trailers and request_invalid_frame_first, are known to be flaky and may be ignored), and
  (c) the breakage needs something SPECIFIC to manifest - a particular interleaving of tasks, a fault or stream end/reset at a particular point, a particular chunking of the bytes by the transport, a multi-step sequence of operations, an unusual (but legal) input or configuration, or two cooperating code sites that each look fine alone. It must NOT be something ordinary use would expose at once (e.g. do not break every request).
The change should look like a plausible regression a maintainer could introduce (an off-by-one, a dropped wake-up, a missed state reset, a reordered check, a wrong comparison, an optimisation that skips a step, ...), a handful of lines. {note}

Also write a DEMONSTRATION: a Rust test (for instance a new file under h3/src/tests/ wired into h3/src/tests/mod.rs, or an integration test / small program using only public or backend-feature APIs) that FAILS with your change and PASSES without it. The in-tree test helpers (h3/src/tests/mod.rs `Pair`, which runs real Quinn on loopback) or hand-written mock implementations of the h3::quic traits are both fine.

Deliverables, all inside {wt}:
  1. {wt}/OUT/patch.diff  - `git diff` of ONLY the library change (no demo, no test edits), applying cleanly with `git apply` to a clean checkout of this commit.
  2. {wt}/OUT/demo.diff   - `git diff` of ONLY the demonstration (new test files / wiring), applying cleanly on top of a clean checkout (with or without patch.diff).
  3. {wt}/OUT/README.md   - which part of the property is broken, what exactly is needed to make it manifest, the exact command that runs the demonstration, and the observed output with and without the change.
Before finishing, VERIFY yourself, and state the results in the README: with patch+demo applied the demo fails; with only the demo applied the demo passes; with only the patch applied `cargo test -p h3 --offline` passes (apart from the two flaky tests) and `cargo build --workspace --offline` succeeds.
Leave the worktree with both diffs applied. Keep your final answer short: the one-paragraph description of the change and the verification results.""")

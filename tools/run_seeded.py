#!/usr/bin/env python3
"""Detection matrix: apply every kept seeded change (and every sensitivity patch) to /repo in turn, run the
checks on it (quick tier, no evidence written, scratch output dir), undo it, and record which checks report
which violation classes in seeded/<name>/meta.json (`detected_by`) and in seeded/MATRIX.md.
usage: run_seeded.py [name ...]   (default: all)"""
import json, os, re, subprocess, sys, glob, shutil
CHECKS = [c["property_id"] for c in json.load(open("/verif/MANIFEST.json"))["checks"]]
OUT = "/var/tmp/h3-matrix"
def sh(cmd, **kw):
    return subprocess.run(cmd, shell=True, capture_output=True, text=True, **kw)
def run_on(patch, checks, aimed=None):
    assert sh("git -C /repo status --porcelain").stdout.strip() == "", "/repo not clean"
    r = sh(f"git -C /repo apply {patch}")
    if r.returncode != 0:
        return {"_error": "patch does not apply: " + r.stderr.strip()[:200]}
    res = {}
    try:
        b = sh("cd /verif/sim && cargo build --release --offline")
        if b.returncode != 0:
            return {"_error": "harness does not build with the change: " + b.stderr[-300:]}
        os.makedirs(OUT, exist_ok=True)
        shutil.copy("/verif/known_findings.json", OUT + "/known_findings.json")
        for c in checks:
            env = dict(os.environ, VERIF_DIR=OUT)
            cmd = ["/verif/sim/target/release/h3sim", c, "--no-evidence", "--report-classes", "3", "--shrink-budget", "200"]
            if aimed is not None and c != aimed:
                cmd += ["--max-wall", "5"]  # checks the change was not aimed at: at most 5 s of runs each
            p = subprocess.run(cmd, capture_output=True, text=True, env=env)
            classes = re.findall(r"^  class: (.*?)  \(", p.stdout, re.M)
            extra = re.findall(r"unreported class: (.*?) \(", p.stdout)
            if p.returncode == 1:
                res[c] = sorted(set(classes + extra))
            elif p.returncode != 0:
                res[c] = ["HARNESS-ERROR " + (p.stderr.strip().splitlines() or ["?"])[-1][:200]]
    finally:
        sh("git -C /repo checkout -- .")
    return res
def main():
    names = sys.argv[1:]
    items = []
    for d in sorted(glob.glob("/verif/seeded/*/")):
        n = os.path.basename(d.rstrip("/"))
        if n.startswith("_") or not os.path.exists(d + "patch.diff"): continue
        if names and n not in names: continue
        items.append((n, d + "patch.diff", d + "meta.json"))
    for p in sorted(glob.glob("/verif/sensitivity/*.diff")):
        n = "sensitivity/" + os.path.basename(p)
        if names and n not in names and os.path.basename(p) not in names: continue
        items.append((n, p, None))
    rows = []
    for n, patch, meta in items:
        aimed = json.load(open(meta))["breaks_property"] if meta else None
        res = run_on(patch, CHECKS, aimed)
        print(n, json.dumps(res)[:400], flush=True)
        rows.append((n, res))
        if meta:
            m = json.load(open(meta)); m["detected_by"] = res; m["detection_run"] = {"tier": "quick", "seed": "default", "checks_run": CHECKS, "note": "the check of the property the change was aimed at ran its full quick tier; the other checks ran at most 5 s each"}
            json.dump(m, open(meta, "w"), indent=1)
    # rebuild against the clean tree
    sh("cd /verif/sim && cargo build --release --offline")
    path = "/verif/seeded/MATRIX.md"
    old = {}
    if names and os.path.exists(path):
        for l in open(path):
            mm = re.match(r"\| (\S+) \| (.*) \|$", l.strip())
            if mm and mm.group(1) not in ("change", "---"): old[mm.group(1)] = mm.group(2)
    for n, res in rows:
        if "_error" in res: old[n] = res["_error"]
        else: old[n] = "; ".join(f"**{c}**: " + ", ".join(v)[:300] for c, v in sorted(res.items())) or "not detected by any check (quick tier)"
    with open(path, "w") as f:
        f.write("# Which checks catch which seeded changes (quick tier, default seed; for seeded changes the checks the change was not aimed at ran at most 5 s each, for sensitivity patches every check ran its full quick tier)\n\n| change | detected by (violation classes) |\n|---|---|\n")
        for n in sorted(old): f.write(f"| {n} | {old[n]} |\n")
if __name__ == "__main__":
    main()

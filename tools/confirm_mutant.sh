#!/bin/sh
# usage: tools/confirm_mutant.sh <dir with patch.diff + demo.diff> <demo test filter> [extra cargo test args]
# Confirms a seeded change in a scratch worktree of /repo HEAD (outside /repo and /verif):
#   1. patch only:  workspace builds, `cargo test -p h3 --offline` passes (flaky pair tolerated)
#   2. patch + demo: demo fails      3. demo only: demo passes
# DEMO_CMD (env) replaces the default demo command `cargo test -p h3 --offline --lib <filter>`.
# Writes <dir>/confirm.log; removes the worktree afterwards. Shared target dir to save rebuilds.
set -u
D="$(cd "$1" && pwd)"; FILTER="$2"; shift 2
WT=/var/tmp/h3-scratch-confirm-$$
export CARGO_TARGET_DIR=/var/tmp/h3-scratch-target
export CARGO_NET_OFFLINE=true
LOG="$D/confirm.log"; : > "$LOG"
git -C /repo worktree add -q --detach "$WT" HEAD || exit 2
trap 'git -C /repo worktree remove --force "$WT"' EXIT
cd "$WT" || exit 2
echo "base commit: $(git rev-parse --short HEAD)" >> "$LOG"
git apply "$D/patch.diff" || { echo "PATCH DOES NOT APPLY" >> "$LOG"; exit 1; }
echo "== patch only: build workspace" >> "$LOG"
cargo build --workspace --offline >> "$LOG" 2>&1 && echo "BUILD OK" >> "$LOG" || echo "BUILD FAILED" >> "$LOG"
echo "== patch only: cargo test -p h3 --lib" >> "$LOG"
cargo test -p h3 --offline --lib 2>&1 | grep -E "^test result|FAILED|failed" >> "$LOG"
git apply "$D/demo.diff" || { echo "DEMO DOES NOT APPLY ON PATCH" >> "$LOG"; exit 1; }
echo "== patch + demo: $FILTER" >> "$LOG"
${DEMO_CMD:-cargo test -p h3 --offline --lib "$FILTER" "$@"} 2>&1 | grep -E "^test |^test result" >> "$LOG"
git checkout -q -- . && git clean -fdq && git apply "$D/demo.diff"
echo "== demo only: $FILTER" >> "$LOG"
${DEMO_CMD:-cargo test -p h3 --offline --lib "$FILTER" "$@"} 2>&1 | grep -E "^test |^test result" >> "$LOG"
echo "done" >> "$LOG"

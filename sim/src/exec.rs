//! simexec: single-threaded deterministic executor. Which ready task or enabled world event runs
//! next is a drawn choice; optional spurious polls; exact quiescence detection.
use crate::choice::draw;
use crate::obs;
use std::cell::RefCell;
use std::future::Future;
use std::pin::Pin;
use std::sync::atomic::{AtomicBool, Ordering};
use std::sync::Arc;
use std::task::{Context, Poll, Wake, Waker};

pub type LocalFut = Pin<Box<dyn Future<Output = ()>>>;

pub struct Flag(pub AtomicBool);
impl Wake for Flag {
    fn wake(self: Arc<Self>) {
        self.0.store(true, Ordering::SeqCst)
    }
    fn wake_by_ref(self: &Arc<Self>) {
        self.0.store(true, Ordering::SeqCst)
    }
}

pub struct Task {
    fut: Option<LocalFut>,
    flag: Arc<Flag>,
    waker: Waker,
    pub name: String,
    pub polls: u64,
    /// scheduler step at which the task was last polled (candidates are offered least recently run first)
    last_run: u64,
}

/// Events of the simulated world (transport, timers) that the scheduler interleaves with tasks.
pub trait World {
    fn count_enabled(&mut self) -> usize;
    fn fire(&mut self, idx: usize);
}
pub struct NoWorld;
impl World for NoWorld {
    fn count_enabled(&mut self) -> usize {
        0
    }
    fn fire(&mut self, _: usize) {}
}

#[derive(Debug, Clone, PartialEq)]
pub enum Stop {
    Quiescent,
    StepCap,
    Panic,
}

#[derive(Debug, Clone)]
pub struct PanicInfo {
    pub task: String,
    pub msg: String,
    pub loc: String,
}
impl PanicInfo {
    /// true if the panic originated in harness code (=> harness error, never a violation)
    pub fn in_harness(&self) -> bool {
        // (a panic raised by the simulated transport to break a busy loop of its caller is the caller's)
        (self.loc.contains("/verif/sim/src") || self.loc.starts_with("src/")) && !self.msg.starts_with("RUNAWAY")
    }
}

thread_local! {
    static SPAWNQ: RefCell<Vec<(String, LocalFut)>> = const { RefCell::new(Vec::new()) };
    static LAST_PANIC: RefCell<Option<(String, String)>> = const { RefCell::new(None) };
}

pub fn install_panic_hook() {
    std::panic::set_hook(Box::new(|info| {
        let msg = info
            .payload()
            .downcast_ref::<String>()
            .cloned()
            .or_else(|| info.payload().downcast_ref::<&str>().map(|s| s.to_string()))
            .unwrap_or_else(|| "<non-string panic>".into());
        let loc = info.location().map(|l| format!("{}:{}", l.file(), l.line())).unwrap_or_default();
        if std::env::var("VERIF_DEBUG_PANIC").is_ok() {
            eprintln!("PANIC: {msg} at {loc}");
        }
        let _ = LAST_PANIC.try_with(|p| *p.borrow_mut() = Some((msg, loc)));
    }));
}
pub fn take_last_panic() -> Option<(String, String)> {
    LAST_PANIC.with(|p| p.borrow_mut().take())
}

/// Spawn from anywhere on the run's thread (also from inside a task).
pub fn spawn(name: impl Into<String>, f: impl Future<Output = ()> + 'static) {
    SPAWNQ.with(|q| q.borrow_mut().push((name.into(), Box::pin(f))));
}

pub struct Exec {
    pub tasks: Vec<Task>,
    pub steps: u64,
    pub max_steps: u64,
    pub spurious: bool,
    pub panic: Option<PanicInfo>,
    /// scheduler step at which a world event last fired
    last_event: u64,
}

impl Default for Exec {
    fn default() -> Self {
        Self::new()
    }
}

impl Exec {
    pub fn new() -> Self {
        SPAWNQ.with(|q| q.borrow_mut().clear());
        Exec { tasks: Vec::new(), steps: 0, max_steps: 20_000, spurious: false, panic: None, last_event: 0 }
    }
    fn add(&mut self, name: String, fut: LocalFut) -> usize {
        let flag = Arc::new(Flag(AtomicBool::new(true)));
        let waker = Waker::from(flag.clone());
        self.tasks.push(Task { fut: Some(fut), flag, waker, name, polls: 0, last_run: 0 });
        self.tasks.len() - 1
    }
    pub fn spawn(&mut self, name: impl Into<String>, f: impl Future<Output = ()> + 'static) -> usize {
        self.add(name.into(), Box::pin(f))
    }
    fn drain_spawnq(&mut self) {
        let v: Vec<_> = SPAWNQ.with(|q| q.borrow_mut().drain(..).collect());
        for (n, f) in v {
            self.add(n, f);
        }
    }
    pub fn is_done(&self, id: usize) -> bool {
        self.tasks[id].fut.is_none()
    }
    pub fn find(&self, name: &str) -> Option<usize> {
        self.tasks.iter().position(|t| t.name == name)
    }
    pub fn pending(&self) -> Vec<String> {
        self.tasks.iter().filter(|t| t.fut.is_some()).map(|t| t.name.clone()).collect()
    }
    /// Cancel a task: its future is dropped (a local "crash" of one task).
    pub fn cancel(&mut self, id: usize) {
        if let Some(f) = self.tasks[id].fut.take() {
            let r = std::panic::catch_unwind(std::panic::AssertUnwindSafe(move || drop(f)));
            if r.is_err() {
                self.record_panic(id);
            }
        }
    }
    fn record_panic(&mut self, id: usize) {
        let (msg, loc) = take_last_panic().unwrap_or_default();
        if self.panic.is_none() {
            self.panic = Some(PanicInfo { task: self.tasks[id].name.clone(), msg, loc });
        }
    }
    fn poll_task(&mut self, id: usize) {
        let t = &mut self.tasks[id];
        t.flag.0.store(false, Ordering::SeqCst);
        t.polls += 1;
        t.last_run = self.steps;
        let w = t.waker.clone();
        let mut cx = Context::from_waker(&w);
        let fut = t.fut.as_mut().unwrap();
        let r = std::panic::catch_unwind(std::panic::AssertUnwindSafe(|| fut.as_mut().poll(&mut cx)));
        match r {
            Ok(Poll::Ready(())) => {
                let f = self.tasks[id].fut.take();
                let r = std::panic::catch_unwind(std::panic::AssertUnwindSafe(move || drop(f)));
                if r.is_err() {
                    self.record_panic(id);
                }
            }
            Ok(Poll::Pending) => {}
            Err(_) => {
                // the future is poisoned: forget it rather than run its destructors twice
                let f = self.tasks[id].fut.take();
                std::mem::forget(f);
                self.record_panic(id);
            }
        }
    }

    /// Run until nothing is runnable (exact quiescence), the step cap is hit, or an h3 call panicked.
    pub fn run(&mut self, world: &mut dyn World) -> Stop {
        let mut ready: Vec<usize> = Vec::new();
        loop {
            if self.panic.is_some() {
                return Stop::Panic;
            }
            if self.steps >= self.max_steps {
                return Stop::StepCap;
            }
            self.drain_spawnq();
            ready.clear();
            let mut pending_unready = 0usize;
            for (i, t) in self.tasks.iter().enumerate() {
                if t.fut.is_some() {
                    if t.flag.0.load(Ordering::SeqCst) {
                        ready.push(i)
                    } else {
                        pending_unready += 1
                    }
                }
            }
            let nev = world.count_enabled();
            let total = ready.len() + nev;
            if total == 0 {
                return Stop::Quiescent;
            }
            // Candidates are offered least recently run first (the world's events form one block, placed by
            // the step of the last event): a uniform draw is indifferent to the order, but low choice values -
            // what minimisation converges to, and what an exhausted replay vector reads - then mean a fair
            // round-robin schedule instead of one task (or a harness task that yields in a loop) starving
            // everything else.
            ready.sort_by_key(|&i| (self.tasks[i].last_run, i));
            let pos = ready.iter().take_while(|&&i| self.tasks[i].last_run <= self.last_event).count();
            let extra = if self.spurious && pending_unready > 0 { 1 } else { 0 };
            let pick = draw((total + extra) as u32) as usize;
            self.steps += 1;
            if pick < pos || (pick >= pos + nev && pick < total) {
                let id = if pick < pos { ready[pick] } else { ready[pick - nev] };
                obs::ev("poll", id as u64 * 4, 0);
                self.poll_task(id);
            } else if pick < total {
                self.last_event = self.steps;
                world.fire(pick - pos);
            } else {
                // spurious poll of a task that was not woken (legal in Rust async)
                let k = draw(pending_unready as u32) as usize;
                let id = self.tasks.iter().enumerate().filter(|(_, t)| t.fut.is_some() && !t.flag.0.load(Ordering::SeqCst)).nth(k).map(|(i, _)| i).unwrap();
                obs::ev("spurious_poll", id as u64 * 4, 0);
                obs::count("sched.spurious_poll");
                self.poll_task(id);
            }
        }
    }

    /// Diagnostic sweep at quiescence: poll every pending task once although none was woken.
    /// Returns the names of tasks that made progress (completed) — i.e. a wake-up was lost.
    pub fn sweep(&mut self) -> Vec<String> {
        let mut progressed = vec![];
        let ids: Vec<usize> = (0..self.tasks.len()).filter(|&i| self.tasks[i].fut.is_some()).collect();
        for id in ids {
            self.poll_task(id);
            if self.tasks[id].fut.is_none() || self.tasks[id].flag.0.load(Ordering::SeqCst) {
                progressed.push(self.tasks[id].name.clone());
            }
        }
        progressed
    }

    /// Drop every remaining future (runs h3 destructors); panics are recorded.
    pub fn shutdown(&mut self) {
        for id in 0..self.tasks.len() {
            self.cancel(id);
        }
        SPAWNQ.with(|q| q.borrow_mut().clear());
    }
}

impl Drop for Exec {
    fn drop(&mut self) {
        self.shutdown();
    }
}

/// Yield once to the scheduler.
pub fn yield_now() -> impl Future<Output = ()> {
    let mut done = false;
    std::future::poll_fn(move |cx| {
        if done {
            Poll::Ready(())
        } else {
            done = true;
            cx.waker().wake_by_ref();
            Poll::Pending
        }
    })
}

//! Observation side channel of a run: event trace (hash always, text when enabled), schedule
//! signature, fault / probe counters. Never draws from the choice source and never reads a clock.
use std::cell::RefCell;
use std::collections::BTreeMap;

#[derive(Default)]
pub struct Obs {
    pub trace_hash: u64,
    pub sig_hash: u64,
    pub events: u64,
    pub text: Option<Vec<String>>,
    pub counters: BTreeMap<&'static str, u64>,
}

thread_local! {
    static OBS: RefCell<Obs> = RefCell::new(Obs::default());
}

pub fn reset(with_text: bool) {
    OBS.with(|o| {
        let mut o = o.borrow_mut();
        o.trace_hash = 0x1234_5678;
        o.sig_hash = 0x8765_4321;
        o.events = 0;
        o.text = if with_text { Some(Vec::new()) } else { None };
        o.counters.clear();
    })
}

pub fn take() -> Obs {
    OBS.with(|o| std::mem::take(&mut *o.borrow_mut()))
}

#[inline]
fn fold(h: u64, v: u64) -> u64 {
    (h ^ v).wrapping_mul(0x100000001b3).rotate_left(17) ^ 0x9E3779B97F4A7C15
}

/// Record an event. `kind` names actor+event, `a` is normally a stream id (its two low bits are the
/// stream class that enters the schedule signature), `b` a size or code (trace only).
pub fn ev(kind: &'static str, a: u64, b: u64) {
    OBS.with(|o| {
        let mut o = o.borrow_mut();
        let k = crate::choice::hash_str(kind);
        o.trace_hash = fold(fold(fold(o.trace_hash, k), a), b);
        o.sig_hash = fold(fold(o.sig_hash, k), a & 3);
        o.events += 1;
        if let Some(t) = o.text.as_mut() {
            if t.len() < 20_000 {
                t.push(format!("{kind} {a} {b}"));
            }
        }
    })
}

/// Free-form trace line (text mode only) — also folded into the trace hash by length to keep replay honest.
pub fn note(f: impl FnOnce() -> String) {
    OBS.with(|o| {
        let mut o = o.borrow_mut();
        if o.text.is_some() {
            let s = f();
            if let Some(t) = o.text.as_mut() {
                if t.len() < 20_000 {
                    t.push(s);
                }
            }
        }
    })
}

pub fn tracing() -> bool {
    OBS.with(|o| o.borrow().text.is_some())
}

/// Count a fault kind that actually fired, or a rare-condition probe that was hit.
pub fn count(name: &'static str) {
    OBS.with(|o| *o.borrow_mut().counters.entry(name).or_insert(0) += 1)
}
pub fn count_n(name: &'static str, n: u64) {
    OBS.with(|o| *o.borrow_mut().counters.entry(name).or_insert(0) += n)
}
pub fn counter(name: &'static str) -> u64 {
    OBS.with(|o| o.borrow().counters.get(name).copied().unwrap_or(0))
}

//! Seeded search driver: runs a check's scenario over many seeds on all cores, shrinks failures,
//! writes replay files and evidence, applies the known-findings list.
use crate::choice::{self, Choices};
use crate::exec;
use crate::obs;
use serde_json::{json, Value};
use std::collections::{BTreeMap, HashMap, HashSet};
use std::sync::atomic::{AtomicBool, AtomicU64, Ordering};
use std::sync::Mutex;
use std::time::Instant;

#[derive(Clone, Copy, PartialEq, Debug)]
pub enum Tier {
    Quick,
    Thorough,
}
impl Tier {
    pub fn name(&self) -> &'static str {
        match self {
            Tier::Quick => "quick",
            Tier::Thorough => "thorough",
        }
    }
}

#[derive(Clone, Debug)]
pub struct Violation {
    pub rule: String,
    pub facts: BTreeMap<String, String>,
    pub detail: String,
}
impl Violation {
    pub fn new(rule: &str, detail: impl Into<String>) -> Self {
        Violation { rule: rule.to_string(), facts: BTreeMap::new(), detail: detail.into() }
    }
    pub fn fact(mut self, k: &str, v: impl ToString) -> Self {
        self.facts.insert(k.to_string(), v.to_string());
        self
    }
    pub fn class(&self) -> String {
        let mut s = self.rule.clone();
        for (k, v) in &self.facts {
            s.push_str(&format!(" {k}={v}"));
        }
        s
    }
    pub fn to_json(&self) -> Value {
        json!({"rule": self.rule, "facts": self.facts, "detail": self.detail})
    }
}

#[derive(Default)]
pub struct RunOut {
    pub violation: Option<Violation>,
    pub harness_error: Option<String>,
    pub nontrivial: bool,
    pub sample: Option<Value>,
}
impl RunOut {
    pub fn ok(nontrivial: bool) -> Self {
        RunOut { nontrivial, ..Default::default() }
    }
    pub fn fail(v: Violation) -> Self {
        RunOut { violation: Some(v), nontrivial: true, ..Default::default() }
    }
}

pub struct RunCtx {
    pub tier: Tier,
    pub run: u64,
    pub want_sample: bool,
}

pub struct Meta {
    pub level: &'static str,
    pub rule: &'static str,
    pub real: &'static [&'static str],
    pub stub: &'static [&'static str],
    pub assumptions: &'static [&'static str],
    pub quick_runs: u64,
    pub thorough_runs: u64,
}

pub trait Check: Sync {
    fn id(&self) -> &'static str;
    fn meta(&self) -> Meta;
    fn run(&self, ctx: &RunCtx) -> RunOut;
}

pub struct Executed {
    pub out: RunOut,
    pub choices: Vec<u32>,
    pub trace_hash: u64,
    pub sig_hash: u64,
    pub events: u64,
    pub counters: BTreeMap<&'static str, u64>,
    pub text: Option<Vec<String>>,
}

fn run_seed(seed: u64, id: &str, run: u64) -> u64 {
    choice::mix(choice::mix(seed, choice::hash_str(id)), run)
}

/// Execute one run of `check` from a choice source. Pure function of (choices, code).
pub fn execute(check: &dyn Check, ctx: &RunCtx, ch: Choices, text: bool) -> Executed {
    obs::reset(text);
    choice::install(ch);
    fastrand::seed(0x5eed ^ ctx.run);
    let _ = exec::take_last_panic();
    let r = std::panic::catch_unwind(std::panic::AssertUnwindSafe(|| check.run(ctx)));
    let ch = choice::take();
    let ob = obs::take();
    let mut out = match r {
        Ok(o) => o,
        Err(_) => {
            let (msg, loc) = exec::take_last_panic().unwrap_or_default();
            RunOut { harness_error: Some(format!("panic outside the simulated tasks: {msg} at {loc}")), ..Default::default() }
        }
    };
    if ch.exhausted && out.harness_error.is_none() && out.violation.is_none() {
        out.harness_error = Some("choice budget exhausted".into());
    }
    Executed { out, choices: ch.rec, trace_hash: ob.trace_hash, sig_hash: ob.sig_hash, events: ob.events, counters: ob.counters, text: ob.text }
}

pub struct Options {
    pub tier: Tier,
    pub seed: u64,
    pub runs: Option<u64>,
    pub workers: usize,
    pub max_wall_s: f64,
    pub replay: Option<String>,
    pub dump_hashes: Option<String>,
    /// at most this many unknown violation classes are minimised and reported per run of a check
    pub report_classes: usize,
    pub verif_dir: String,
    pub shrink_budget: usize,
    pub no_evidence: bool,
}

struct Found {
    run: u64,
    v: Violation,
    choices: Vec<u32>,
}

fn shrink(check: &dyn Check, ctx: &RunCtx, mut v: Vec<u32>, class: &str, budget: usize) -> (Vec<u32>, usize) {
    let mut tries = 0usize;
    // wall-clock cap per class as well (expensive engines): once exceeded every further attempt is skipped
    let t0 = Instant::now();
    let budget = std::cell::Cell::new(budget);
    let fails = |c: &Vec<u32>, tries: &mut usize| -> bool {
        if t0.elapsed().as_secs_f64() > 20.0 {
            budget.set(0);
            return false;
        }
        *tries += 1;
        let e = execute(check, ctx, Choices::replay(c.clone()), false);
        matches!(&e.out.violation, Some(x) if x.class() == class)
    };
    // what was actually consumed
    {
        let e = execute(check, ctx, Choices::replay(v.clone()), false);
        if e.choices.len() < v.len() {
            v.truncate(e.choices.len());
        }
    }
    // pass 1: truncate tail (zeros at the tail are implicit)
    let mut lo = 0usize;
    let mut hi = v.len();
    while lo < hi && tries < budget.get() {
        let mid = (lo + hi) / 2;
        let c = v[..mid].to_vec();
        if fails(&c, &mut tries) {
            hi = mid;
        } else {
            lo = mid + 1;
        }
    }
    v.truncate(hi);
    // pass 2: delete / zero blocks
    let mut size = (v.len() / 2).max(1);
    loop {
        let mut i = 0;
        while i + size <= v.len() && tries < budget.get() {
            let mut c = v.clone();
            c.drain(i..i + size);
            if fails(&c, &mut tries) {
                v = c;
                continue;
            }
            if v[i..i + size].iter().any(|x| *x != 0) {
                let mut z = v.clone();
                for x in &mut z[i..i + size] {
                    *x = 0
                }
                if fails(&z, &mut tries) {
                    v = z;
                }
            }
            i += size;
        }
        if size == 1 || tries >= budget.get() {
            break;
        }
        size /= 2;
    }
    // pass 3: lower single values
    let mut i = 0;
    while i < v.len() && tries < budget.get() {
        if v[i] > 0 {
            for cand in [0, v[i] / 2, v[i] - 1] {
                if cand < v[i] {
                    let mut c = v.clone();
                    c[i] = cand;
                    if fails(&c, &mut tries) {
                        v = c;
                        if cand == 0 {
                            break;
                        }
                    }
                }
            }
        }
        i += 1;
    }
    while v.last() == Some(&0) {
        v.pop();
    }
    (v, tries)
}

fn load_known(dir: &str) -> Vec<Value> {
    let p = format!("{dir}/known_findings.json");
    match std::fs::read_to_string(&p) {
        Ok(s) => serde_json::from_str::<Value>(&s).ok().and_then(|v| v.get("findings").cloned()).and_then(|f| f.as_array().cloned()).unwrap_or_default(),
        Err(_) => vec![],
    }
}
fn matches_known<'a>(known: &'a [Value], id: &str, v: &Violation) -> Option<&'a Value> {
    known.iter().find(|k| {
        k["property"].as_str() == Some(id)
            && k["rule"].as_str() == Some(&v.rule)
            && k["where"].as_object().map(|w| w.iter().all(|(kk, vv)| v.facts.get(kk).map(|s| s.as_str()) == vv.as_str())).unwrap_or(true)
    })
}

/// returns the process exit code
pub fn run_check(check: &dyn Check, opt: &Options) -> i32 {
    let id = check.id();
    let meta = check.meta();
    if let Some(path) = &opt.replay {
        return replay(check, opt, path);
    }
    let runs = opt.runs.unwrap_or(match opt.tier {
        Tier::Quick => meta.quick_runs,
        Tier::Thorough => meta.thorough_runs,
    });
    println!("check {id} tier={} seed={} runs={runs} workers={}", opt.tier.name(), opt.seed, opt.workers);
    let t0 = Instant::now();
    let next = AtomicU64::new(0);
    let stop = AtomicBool::new(false);
    let done = AtomicU64::new(0);
    struct Agg {
        sigs: HashSet<u64>,
        counters: BTreeMap<&'static str, u64>,
        found: Vec<Found>,
        class_counts: BTreeMap<String, u64>,
        dump: Vec<(u64, u64, u64, usize, String)>,
        harness: Vec<(u64, String)>,
        events: u64,
        nontrivial: u64,
        samples: Vec<Value>,
        recheck_mismatch: Vec<u64>,
        rechecked: u64,
        choices_total: u64,
    }
    let agg = Mutex::new(Agg { sigs: HashSet::new(), counters: BTreeMap::new(), found: vec![], class_counts: BTreeMap::new(), dump: vec![], harness: vec![], events: 0, nontrivial: 0, samples: vec![], recheck_mismatch: vec![], rechecked: 0, choices_total: 0 });
    let sample_every = (runs / 5).max(1);
    std::thread::scope(|sc| {
        for _ in 0..opt.workers {
            sc.spawn(|| {
                let mut sigs: HashSet<u64> = HashSet::new();
                let mut counters: BTreeMap<&'static str, u64> = BTreeMap::new();
                let mut found: Vec<Found> = vec![];
                let mut class_n: HashMap<String, u64> = HashMap::new();
                let mut dump: Vec<(u64, u64, u64, usize, String)> = vec![];
                let mut harness = vec![];
                let mut events = 0u64;
                let mut nontrivial = 0u64;
                let mut samples = vec![];
                let mut mismatch = vec![];
                let mut rechecked = 0u64;
                let mut choices_total = 0u64;
                loop {
                    if stop.load(Ordering::Relaxed) {
                        break;
                    }
                    let run = next.fetch_add(1, Ordering::Relaxed);
                    if run >= runs {
                        break;
                    }
                    if std::env::var("VERIF_DEBUG").is_ok() {
                        eprintln!("run {run} starts");
                    }
                    let want_sample = run % sample_every == 0 && samples.len() < 3;
                    let ctx = RunCtx { tier: opt.tier, run, want_sample };
                    let e = execute(check, &ctx, Choices::seeded(run_seed(opt.seed, id, run)), false);
                    events += e.events;
                    choices_total += e.choices.len() as u64;
                    for (k, v) in &e.counters {
                        *counters.entry(k).or_insert(0) += v;
                    }
                    if e.out.nontrivial {
                        nontrivial += 1;
                        sigs.insert(e.sig_hash);
                    }
                    if let Some(s) = e.out.sample {
                        samples.push(s);
                    }
                    if let Some(h) = e.out.harness_error {
                        harness.push((run, h));
                    } else if let Some(v) = e.out.violation {
                        // keep the first occurrence of every class this worker meets (workers take run
                        // indices in increasing order, so the overall first occurrence is always kept)
                        let n = class_n.entry(v.class()).or_insert(0);
                        *n += 1;
                        if opt.dump_hashes.is_some() {
                            dump.push((run, e.trace_hash, e.sig_hash, e.choices.len(), v.class()));
                        }
                        if *n == 1 && found.len() < 4096 {
                            found.push(Found { run, v, choices: e.choices.clone() });
                        }
                    } else if opt.dump_hashes.is_some() {
                        dump.push((run, e.trace_hash, e.sig_hash, e.choices.len(), String::new()));
                    }
                    // determinism self-check on a sample of runs: replay the recorded vector
                    if run % 97 == 0 {
                        rechecked += 1;
                        let ctx2 = RunCtx { tier: opt.tier, run, want_sample: false };
                        let e2 = execute(check, &ctx2, Choices::replay(e.choices.clone()), false);
                        if e2.trace_hash != e.trace_hash {
                            mismatch.push(run);
                        }
                    }
                    let d = done.fetch_add(1, Ordering::Relaxed);
                    if d % 256 == 0 && t0.elapsed().as_secs_f64() > opt.max_wall_s {
                        stop.store(true, Ordering::Relaxed);
                    }
                }
                let mut a = agg.lock().unwrap();
                a.sigs.extend(sigs);
                for (k, v) in counters {
                    *a.counters.entry(k).or_insert(0) += v;
                }
                a.found.extend(found);
                for (k, v) in class_n {
                    *a.class_counts.entry(k).or_insert(0) += v;
                }
                a.dump.extend(dump);
                a.harness.extend(harness);
                a.events += events;
                a.nontrivial += nontrivial;
                a.samples.extend(samples);
                a.recheck_mismatch.extend(mismatch);
                a.rechecked += rechecked;
                a.choices_total += choices_total;
            });
        }
    });
    let mut a = agg.into_inner().unwrap();
    let evaluated = done.load(Ordering::Relaxed);
    let wall = t0.elapsed().as_secs_f64();
    if !a.harness.is_empty() {
        a.harness.sort();
        let (run, msg) = &a.harness[0];
        eprintln!("HARNESS-ERROR check={id} run={run}: {msg} ({} runs affected)", a.harness.len());
        return 2;
    }
    if !a.recheck_mismatch.is_empty() {
        eprintln!("HARNESS-ERROR check={id}: determinism self-check failed for runs {:?}", &a.recheck_mismatch[..a.recheck_mismatch.len().min(5)]);
        return 2;
    }
    // group violations by class, first occurrence (lowest run index) per class
    a.found.sort_by_key(|f| f.run);
    let mut classes: BTreeMap<String, &Found> = BTreeMap::new();
    let class_counts: BTreeMap<String, u64> = a.class_counts.clone();
    for f in &a.found {
        classes.entry(f.v.class()).or_insert(f);
    }
    if let Some(path) = &opt.dump_hashes {
        // one line per run, in run order: the event-log fingerprint used for cross-process determinism diffs
        a.dump.sort();
        let mut out = String::with_capacity(a.dump.len() * 48);
        for (run, th, sh, n, class) in &a.dump {
            out.push_str(&format!("{run} {th:016x} {sh:016x} {n} {class}\n"));
        }
        std::fs::write(path, out).expect("write hash dump");
    }
    let known = load_known(&opt.verif_dir);
    let mut exit = 0;
    let mut reported = vec![];
    let mut known_hit = vec![];
    let _ = std::fs::create_dir_all(format!("{}/replays", opt.verif_dir));
    // known findings first (matched on the rule and facts of the first occurrence; no minimisation needed)
    let mut known_lines: BTreeMap<String, (u64, Vec<String>)> = BTreeMap::new();
    let mut unknown: Vec<(&String, &&Found)> = vec![];
    for (class, f) in classes.iter() {
        if let Some(k) = matches_known(&known, id, &f.v) {
            let key = format!("{} [{}{}]", k["description"].as_str().unwrap_or(""), k["rule"].as_str().unwrap_or(""), k["where"].as_object().map(|w| w.iter().map(|(a, b)| format!(" {a}={}", b.as_str().unwrap_or(""))).collect::<String>()).unwrap_or_default());
            let e = known_lines.entry(key).or_insert((0, vec![]));
            e.0 += class_counts[class];
            e.1.push(class.clone());
            known_hit.push(class.clone());
        } else {
            unknown.push((class, f));
        }
    }
    for (line, (cnt, _)) in &known_lines {
        println!("KNOWN-FINDING: property={id} {line} ({cnt} runs)");
    }
    if unknown.len() > opt.report_classes {
        println!("note: {} violation classes found; the first {} are minimised and reported, the others are listed only:", unknown.len(), opt.report_classes);
        for (c, _) in unknown.iter().skip(opt.report_classes) {
            println!("  unreported class: {c} ({} runs)", class_counts[*c]);
        }
    }
    for (class, f) in unknown.iter().take(opt.report_classes) {
        let class: &String = class;
        let f: &Found = f;
        let ctx = RunCtx { tier: opt.tier, run: f.run, want_sample: false };
        let (min, tries) = shrink(check, &ctx, f.choices.clone(), class, opt.shrink_budget);
        let e = execute(check, &ctx, Choices::replay(min.clone()), true);
        let v = match &e.out.violation {
            Some(v) if v.class() == *class => v.clone(),
            _ => {
                eprintln!("HARNESS-ERROR check={id}: minimised vector for run {} does not reproduce class {class}", f.run);
                return 2;
            }
        };
        let path = format!("{}/replays/{id}-{}-{}.json", opt.verif_dir, opt.seed, f.run);
        let doc = json!({
            "property": id, "seed": opt.seed, "run": f.run, "tier": opt.tier.name(),
            "choices": min, "original_choices_len": f.choices.len(), "shrink_replays": tries,
            "violation": v.to_json(), "trace_hash": format!("{:016x}", e.trace_hash),
            "trace": e.text.unwrap_or_default(), "sample": e.out.sample,
        });
        std::fs::write(&path, serde_json::to_string_pretty(&doc).unwrap()).expect("write replay");
        println!("VIOLATION property={id} replay={path}");
        println!("  class: {class}  ({} of {evaluated} runs; shrunk {} -> {} choices in {tries} replays)", class_counts[class], f.choices.len(), min.len());
        println!("  detail: {}", v.detail);
        reported.push(class.clone());
        exit = 1;
    }
    // evidence
    if !opt.no_evidence {
        let faults: BTreeMap<_, _> = a.counters.iter().filter(|(k, _)| k.starts_with("fault.") || k.starts_with("net.") || k.starts_with("sched.")).map(|(k, v)| (k.to_string(), *v)).collect();
        let probes: BTreeMap<_, _> = a.counters.iter().filter(|(k, _)| !(k.starts_with("fault.") || k.starts_with("net.") || k.starts_with("sched."))).map(|(k, v)| (k.to_string(), *v)).collect();
        let zero_probes: Vec<&String> = probes.iter().filter(|(_, v)| **v == 0).map(|(k, _)| k).collect();
        if !zero_probes.is_empty() {
            println!("warning: probes at zero: {zero_probes:?}");
        }
        a.samples.truncate(4);
        let ev = json!({
            "property_id": id, "tier": opt.tier.name(), "seed": opt.seed, "level": meta.level,
            "coverage": {
                "evaluations": evaluated, "distinct_nontrivial": a.sigs.len(), "rule": meta.rule,
                "samples": a.samples, "nontrivial_runs": a.nontrivial,
                "distinct_measure": "distinct schedule signatures (hash of the sequence of (actor/event kind, stream class) of the run, byte counts excluded) among non-trivial runs",
                "faults_fired": faults, "probes": probes,
                "scheduler_events": a.events, "choices_drawn": a.choices_total,
                "simulated_time": match a.counters.get("sim.virtual_ms") {
                    Some(ms) => json!({"unit": "virtual seconds on the discrete-event clock (engine E3)", "total": *ms as f64 / 1000.0, "per_run_mean": *ms as f64 / 1000.0 / evaluated.max(1) as f64}),
                    None => json!({"unit": "scheduler events (engines E1/E2 have no clock: h3 never reads one, logical time is the event sequence number)", "total": a.events, "per_run_mean": a.events as f64 / evaluated.max(1) as f64}),
                },
                "runs_per_hour": (evaluated as f64 / wall.max(1e-9) * 3600.0) as u64,
                "workers": opt.workers, "planned_runs": runs,
                "determinism_rechecks": a.rechecked,
                "components_real": meta.real, "components_stub": meta.stub,
                "violation_classes": reported, "known_findings_hit": known_hit,
            },
            "assumptions": meta.assumptions, "wall_s": wall, "violations": reported.len(),
        });
        let _ = std::fs::create_dir_all(format!("{}/evidence", opt.verif_dir));
        std::fs::write(format!("{}/evidence/{id}.json", opt.verif_dir), serde_json::to_string_pretty(&ev).unwrap()).expect("write evidence");
    }
    println!("check {id}: {evaluated} runs, {} distinct non-trivial schedules, {:.1}s, {} violation class(es), {} known", a.sigs.len(), wall, reported.len(), known_hit.len());
    exit
}

fn replay(check: &dyn Check, opt: &Options, path: &str) -> i32 {
    let id = check.id();
    let doc: Value = match std::fs::read_to_string(path).ok().and_then(|s| serde_json::from_str(&s).ok()) {
        Some(d) => d,
        None => {
            eprintln!("HARNESS-ERROR cannot read replay file {path}");
            return 2;
        }
    };
    let choices: Vec<u32> = doc["choices"].as_array().map(|a| a.iter().map(|x| x.as_u64().unwrap_or(0) as u32).collect()).unwrap_or_default();
    let run = doc["run"].as_u64().unwrap_or(0);
    let tier = if doc["tier"].as_str() == Some("thorough") { Tier::Thorough } else { Tier::Quick };
    let ctx = RunCtx { tier, run, want_sample: true };
    let e = execute(check, &ctx, Choices::replay(choices), true);
    for l in e.text.as_deref().unwrap_or(&[]) {
        println!("  | {l}");
    }
    if let Some(h) = &e.out.harness_error {
        eprintln!("HARNESS-ERROR {h}");
        return 2;
    }
    match &e.out.violation {
        Some(v) => {
            let known = load_known(&opt.verif_dir);
            if let Some(k) = matches_known(&known, id, v) {
                println!("KNOWN-FINDING: property={id} {} [{}] (replay of {path}: class {})", k["description"].as_str().unwrap_or(""), k["rule"].as_str().unwrap_or(""), v.class());
                return 0;
            }
            let same_class = doc["violation"]["rule"].as_str() == Some(&v.rule);
            let same_hash = doc["trace_hash"].as_str() == Some(&format!("{:016x}", e.trace_hash));
            println!("VIOLATION property={id} replay={path}");
            println!("  class: {}", v.class());
            println!("  detail: {}", v.detail);
            println!("  same rule as recorded: {same_class}; same trace hash as recorded: {same_hash}");
            1
        }
        None => {
            println!("replay of {path}: no violation (property held on this schedule with the current tree)");
            0
        }
    }
}

//! Engine E3: real Quinn on a virtual clock and an in-memory UDP network.
//! A per-thread discrete-event core provides `quinn::Runtime` (spawn, timers, now) and
//! `quinn::AsyncUdpSocket`; which ready task runs next and every packet's fate (deliver after a
//! drawn delay, drop, duplicate, reorder) are drawn from the choice source. When nothing is
//! runnable the clock jumps to the next timer or packet.
use crate::choice::draw;
use crate::obs;
use quinn::udp::{RecvMeta, Transmit};
use quinn::{AsyncTimer, AsyncUdpSocket, Runtime, UdpPoller};
use std::cell::RefCell;
use std::cmp::Reverse;
use std::collections::{BTreeMap, BinaryHeap, VecDeque};
use std::future::Future;
use std::io;
use std::net::SocketAddr;
use std::pin::Pin;
use std::sync::atomic::{AtomicBool, Ordering};
use std::sync::{Arc, Mutex};
use std::task::{Context, Poll, Wake, Waker};
use std::time::{Duration, Instant};

pub type BoxFut = Pin<Box<dyn Future<Output = ()>>>;

#[derive(Clone, Debug)]
pub struct NetFaults {
    /// per-mille rates
    pub drop: u32,
    pub dup: u32,
    pub reorder: u32,
    pub max_delay_us: u32,
    /// no packet passes while set (partition)
    pub partition: bool,
}
impl Default for NetFaults {
    fn default() -> Self {
        NetFaults { drop: 0, dup: 0, reorder: 0, max_delay_us: 2000, partition: false }
    }
}

struct TaskSlot {
    fut: Option<BoxFut>,
    flag: Arc<AtomicBool>,
    name: String,
}
pub struct Core {
    base: Instant,
    pub now: Duration,
    tasks: Vec<TaskSlot>,
    timers: BinaryHeap<Reverse<(Duration, u64, usize)>>,
    timer_wakers: BTreeMap<usize, Waker>,
    /// deadline each timer is currently armed for (heap entries that disagree are stale)
    armed: BTreeMap<usize, Duration>,
    next_timer: usize,
    seq: u64,
    net: BinaryHeap<Reverse<(Duration, u64)>>,
    net_items: BTreeMap<u64, (SocketAddr, SocketAddr, Vec<u8>)>,
    socks: BTreeMap<SocketAddr, Arc<SimUdp>>,
    pub faults: NetFaults,
    pub steps: u64,
    pub polls: u64,
    pub timer_fires: u64,
    pub swept: bool,
    pub packets_sent: u64,
    pub panic: Option<(String, String, String)>,
    spawnq: Vec<(String, BoxFut)>,
}
thread_local! {
    static CORE: RefCell<Option<Core>> = const { RefCell::new(None) };
}
pub fn with<R>(f: impl FnOnce(&mut Core) -> R) -> R {
    CORE.with(|c| f(c.borrow_mut().as_mut().expect("E3 core not installed")))
}
pub fn install() {
    CORE.with(|c| {
        *c.borrow_mut() = Some(Core {
            // a fixed base keeps virtual Instants comparable inside a run; its absolute value is never logged
            base: Instant::now(),
            now: Duration::ZERO,
            tasks: vec![],
            timers: BinaryHeap::new(),
            timer_wakers: BTreeMap::new(),
            armed: BTreeMap::new(),
            next_timer: 0,
            seq: 0,
            net: BinaryHeap::new(),
            net_items: BTreeMap::new(),
            socks: BTreeMap::new(),
            faults: NetFaults::default(),
            steps: 0,
            polls: 0,
            timer_fires: 0,
            swept: false,
            packets_sent: 0,
            panic: None,
            spawnq: vec![],
        })
    });
}
/// drop the core (and with it every task, endpoint and connection of the run)
pub fn uninstall() {
    let core = CORE.with(|c| c.borrow_mut().take());
    // tasks are dropped outside the borrow: their destructors call back into the (now absent) core
    if let Some(mut core) = core {
        let tasks = std::mem::take(&mut core.tasks);
        let q = std::mem::take(&mut core.spawnq);
        let r = std::panic::catch_unwind(std::panic::AssertUnwindSafe(move || {
            drop(tasks);
            drop(q);
            drop(core);
        }));
        let _ = r;
    }
}
fn try_with<R>(f: impl FnOnce(&mut Core) -> R) -> Option<R> {
    CORE.with(|c| match c.try_borrow_mut() {
        Ok(mut g) => g.as_mut().map(f),
        Err(_) => None,
    })
}

struct Flag(Arc<AtomicBool>);
impl Wake for Flag {
    fn wake(self: Arc<Self>) {
        self.0.store(true, Ordering::SeqCst)
    }
    fn wake_by_ref(self: &Arc<Self>) {
        self.0.store(true, Ordering::SeqCst)
    }
}

pub fn spawn(name: &str, f: impl Future<Output = ()> + 'static) {
    let name = name.to_string();
    let b: BoxFut = Box::pin(f);
    if try_with(|c| c.spawnq.push((name.clone(), b))).is_none() {
        // core busy or gone: the future is dropped
    }
}

struct SendWrap(Pin<Box<dyn Future<Output = ()> + Send>>);
impl Future for SendWrap {
    type Output = ();
    fn poll(mut self: Pin<&mut Self>, cx: &mut Context<'_>) -> Poll<()> {
        self.0.as_mut().poll(cx)
    }
}

#[derive(Debug)]
pub struct SimRuntime;
#[derive(Debug)]
struct SimTimer {
    id: usize,
    at: Duration,
}
impl Runtime for SimRuntime {
    fn new_timer(&self, i: Instant) -> Pin<Box<dyn AsyncTimer>> {
        let (id, at) = try_with(|c| {
            c.next_timer += 1;
            (c.next_timer, i.saturating_duration_since(c.base))
        })
        .unwrap_or((0, Duration::ZERO));
        Box::pin(SimTimer { id, at })
    }
    fn spawn(&self, future: Pin<Box<dyn Future<Output = ()> + Send>>) {
        spawn("quinn-driver", SendWrap(future));
    }
    fn wrap_udp_socket(&self, _t: std::net::UdpSocket) -> io::Result<Arc<dyn AsyncUdpSocket>> {
        Err(io::Error::new(io::ErrorKind::Unsupported, "simulated runtime has no real sockets"))
    }
    fn now(&self) -> Instant {
        // (during teardown the core is gone: any instant will do)
        try_with(|c| c.base + c.now).unwrap_or_else(Instant::now)
    }
}
impl Drop for SimTimer {
    fn drop(&mut self) {
        let id = self.id;
        let _ = try_with(|c| {
            c.armed.remove(&id);
            c.timer_wakers.remove(&id);
        });
    }
}
impl AsyncTimer for SimTimer {
    fn reset(mut self: Pin<&mut Self>, i: Instant) {
        if let Some(at) = try_with(|c| i.saturating_duration_since(c.base)) {
            self.at = at;
        }
    }
    fn poll(self: Pin<&mut Self>, cx: &mut Context) -> Poll<()> {
        try_with(|c| {
            if c.now >= self.at {
                return Poll::Ready(());
            }
            c.timer_wakers.insert(self.id, cx.waker().clone());
            if c.armed.get(&self.id) != Some(&self.at) {
                c.armed.insert(self.id, self.at);
                c.seq += 1;
                let s = c.seq;
                c.timers.push(Reverse((self.at, s, self.id)));
            }
            Poll::Pending
        })
        .unwrap_or(Poll::Pending)
    }
}

#[derive(Debug)]
pub struct SimUdp {
    addr: SocketAddr,
    q: Mutex<VecDeque<(SocketAddr, Vec<u8>)>>,
    w: Mutex<Option<Waker>>,
}
#[derive(Debug)]
struct AlwaysWritable;
impl UdpPoller for AlwaysWritable {
    fn poll_writable(self: Pin<&mut Self>, _cx: &mut Context) -> Poll<io::Result<()>> {
        Poll::Ready(Ok(()))
    }
}
impl AsyncUdpSocket for SimUdp {
    fn create_io_poller(self: Arc<Self>) -> Pin<Box<dyn UdpPoller>> {
        Box::pin(AlwaysWritable)
    }
    fn try_send(&self, t: &Transmit) -> io::Result<()> {
        if try_with(|_| ()).is_none() {
            return Ok(()); // teardown: packets go nowhere
        }
        let seg = t.segment_size.unwrap_or(t.contents.len().max(1));
        for chunk in t.contents.chunks(seg) {
            // fate of this packet (drawn outside the core borrow)
            let (f, now) = with(|c| (c.faults.clone(), c.now));
            let _ = now;
            with(|c| c.packets_sent += 1);
            if f.partition {
                obs::count("net.packet_lost_in_partition");
                obs::ev("pkt_partition", self.addr.port() as u64 * 4, chunk.len() as u64);
                continue;
            }
            // choice 0 is the plain fate (delivered once, in order): faults sit at the top of the range
            let x = if f.drop + f.dup + f.reorder > 0 { draw(1000) } else { 0 };
            if x >= 1000 - f.drop {
                obs::count("net.packet_dropped");
                obs::ev("pkt_drop", self.addr.port() as u64 * 4, chunk.len() as u64);
                obs::note(|| format!("    t={:?}", now));
                continue;
            }
            let copies = if x >= 1000 - f.drop - f.dup {
                obs::count("net.packet_duplicated");
                2
            } else {
                1
            };
            let extra = if x < 1000 - f.drop - f.dup && x >= 1000u32.saturating_sub(f.drop + f.dup + f.reorder) {
                obs::count("net.packet_reordered");
                20_000
            } else {
                0
            };
            for _ in 0..copies {
                let delay = 200 + if f.max_delay_us > 0 { draw(f.max_delay_us) } else { 0 } + extra;
                with(|c| {
                    c.seq += 1;
                    let s = c.seq;
                    c.net.push(Reverse((c.now + Duration::from_micros(delay as u64), s)));
                    c.net_items.insert(s, (self.addr, t.destination, chunk.to_vec()));
                });
            }
            obs::ev("pkt_send", self.addr.port() as u64 * 4, chunk.len() as u64);
            obs::note(|| format!("    t={:?}", now));
        }
        Ok(())
    }
    fn poll_recv(&self, cx: &mut Context, bufs: &mut [io::IoSliceMut<'_>], meta: &mut [RecvMeta]) -> Poll<io::Result<usize>> {
        let mut q = self.q.lock().unwrap();
        if let Some((from, data)) = q.pop_front() {
            bufs[0][..data.len()].copy_from_slice(&data);
            meta[0] = RecvMeta { addr: from, len: data.len(), stride: data.len(), ecn: None, dst_ip: None };
            Poll::Ready(Ok(1))
        } else {
            *self.w.lock().unwrap() = Some(cx.waker().clone());
            Poll::Pending
        }
    }
    fn local_addr(&self) -> io::Result<SocketAddr> {
        Ok(self.addr)
    }
    fn may_fragment(&self) -> bool {
        false
    }
}
pub fn mk_sock(addr: &str) -> Arc<SimUdp> {
    let a: SocketAddr = addr.parse().unwrap();
    let s = Arc::new(SimUdp { addr: a, q: Default::default(), w: Default::default() });
    with(|c| {
        c.socks.insert(a, s.clone());
    });
    s
}

#[derive(Debug, PartialEq, Clone, Copy)]
pub enum Stop {
    Done,
    Quiescent,
    StepCap,
    Panic,
    TimeCap,
}

/// run until nothing is left to do (no ready task, no timer, no packet), a cap is hit, or a task panicked
pub fn run(max_steps: u64, max_virtual: Duration) -> Stop {
    run_until(|| false, max_steps, max_virtual)
}

/// like `run`, but also stops (as `Done`) as soon as `done()` holds
pub fn run_until(mut done: impl FnMut() -> bool, max_steps: u64, max_virtual: Duration) -> Stop {
    loop {
        if done() {
            return Stop::Done;
        }
        // adopt newly spawned tasks
        let q: Vec<(String, BoxFut)> = with(|c| std::mem::take(&mut c.spawnq));
        for (name, fut) in q {
            with(|c| c.tasks.push(TaskSlot { fut: Some(fut), flag: Arc::new(AtomicBool::new(true)), name }));
        }
        if with(|c| c.panic.is_some()) {
            return Stop::Panic;
        }
        let steps = with(|c| {
            c.steps += 1;
            c.steps
        });
        if steps > max_steps {
            return Stop::StepCap;
        }
        let ready: Vec<usize> = with(|c| c.tasks.iter().enumerate().filter(|(_, t)| t.fut.is_some() && t.flag.load(Ordering::SeqCst)).map(|(i, _)| i).collect());
        if !ready.is_empty() {
            let id = ready[draw(ready.len() as u32) as usize];
            let (mut fut, flag) = with(|c| {
                c.polls += 1;
                c.tasks[id].flag.store(false, Ordering::SeqCst);
                (c.tasks[id].fut.take().unwrap(), c.tasks[id].flag.clone())
            });
            let w = Waker::from(Arc::new(Flag(flag)));
            let mut cx = Context::from_waker(&w);
            let r = std::panic::catch_unwind(std::panic::AssertUnwindSafe(|| fut.as_mut().poll(&mut cx)));
            match r {
                Ok(Poll::Ready(())) => {
                    let r = std::panic::catch_unwind(std::panic::AssertUnwindSafe(move || drop(fut)));
                    if r.is_err() {
                        let (m, l) = crate::exec::take_last_panic().unwrap_or_default();
                        with(|c| c.panic = Some((c.tasks[id].name.clone(), m, l)));
                    }
                }
                Ok(Poll::Pending) => with(|c| c.tasks[id].fut = Some(fut)),
                Err(_) => {
                    std::mem::forget(fut);
                    let (m, l) = crate::exec::take_last_panic().unwrap_or_default();
                    with(|c| c.panic = Some((c.tasks[id].name.clone(), m, l)));
                }
            }
            continue;
        }
        // nothing runnable: jump the clock to the next timer or packet
        let ev = with(|c| {
            let t = c.timers.peek().map(|r| (r.0 .0, r.0 .1));
            let n = c.net.peek().map(|r| (r.0 .0, r.0 .1));
            match (t, n) {
                (None, None) => None,
                (Some(t), None) => Some((true, t)),
                (None, Some(n)) => Some((false, n)),
                (Some(t), Some(n)) => {
                    if t <= n {
                        Some((true, t))
                    } else {
                        Some((false, n))
                    }
                }
            }
        });
        if let Some(at) = std::env::var("VERIF_E3_SWEEP_AT").ok().and_then(|v| v.parse::<u64>().ok()) {
            // debugging aid: once virtual time has passed `at` seconds, poll every task once although none was woken
            if with(|c| c.now > Duration::from_secs(at) && !c.swept) {
                with(|c| {
                    c.swept = true;
                    for t in c.tasks.iter() {
                        if t.fut.is_some() {
                            t.flag.store(true, Ordering::SeqCst);
                        }
                    }
                });
                continue;
            }
        } else if std::env::var("VERIF_E3_SWEEP").is_ok() {
            // debugging aid: before a clock jump of more than a second, poll every task once although none
            // was woken; if that changes the outcome a wake-up was lost somewhere
            let jump = with(|c| ev.map(|(_, (at, _))| at.saturating_sub(c.now) > Duration::from_secs(std::env::var("VERIF_E3_SWEEP").ok().and_then(|v| v.parse().ok()).unwrap_or(1))).unwrap_or(false) && !c.swept);
            if jump {
                with(|c| {
                    c.swept = true;
                    for t in c.tasks.iter() {
                        if t.fut.is_some() {
                            t.flag.store(true, Ordering::SeqCst);
                        }
                    }
                });
                obs::note(|| "debug sweep: all tasks polled before a long clock jump".to_string());
                continue;
            }
            with(|c| c.swept = false);
        }
        match ev {
            None => return Stop::Quiescent,
            Some((_, (at, _))) if at > max_virtual => return Stop::TimeCap,
            Some((true, _)) => {
                let w = with(|c| {
                    let Reverse((at, _, id)) = c.timers.pop().unwrap();
                    if c.armed.get(&id) != Some(&at) {
                        return None; // stale entry of a timer that was reset or dropped
                    }
                    c.armed.remove(&id);
                    c.timer_fires += 1;
                    if at > c.now {
                        c.now = at;
                    }
                    obs::note(|| format!("timer {id} fires t={:?}", c.now));
                    c.timer_wakers.remove(&id)
                });
                if let Some(w) = w {
                    w.wake();
                }
            }
            Some((false, _)) => {
                let (sock, from, data) = with(|c| {
                    let Reverse((at, s)) = c.net.pop().unwrap();
                    if at > c.now {
                        c.now = at;
                    }
                    let (from, to, data) = c.net_items.remove(&s).unwrap();
                    (c.socks.get(&to).cloned(), from, data)
                });
                obs::ev("pkt_deliver", from.port() as u64 * 4, data.len() as u64);
                if let Some(sock) = sock {
                    sock.q.lock().unwrap().push_back((from, data));
                    let w = sock.w.lock().unwrap().take();
                    if let Some(w) = w {
                        w.wake();
                    }
                }
            }
        }
    }
}

pub fn pending_tasks() -> Vec<String> {
    with(|c| c.tasks.iter().filter(|t| t.fut.is_some() && t.name != "quinn-driver").map(|t| t.name.clone()).collect())
}
pub fn now() -> Duration {
    with(|c| c.now)
}
/// sleep in virtual time
pub fn sleep(d: Duration) -> impl Future<Output = ()> {
    let mut timer: Option<Pin<Box<dyn AsyncTimer>>> = None;
    std::future::poll_fn(move |cx| {
        if timer.is_none() {
            let at = with(|c| c.base + c.now + d);
            timer = Some(SimRuntime.new_timer(at));
        }
        timer.as_mut().unwrap().as_mut().poll(cx)
    })
}

// ---------------------------------------------------------------------------- endpoints

static CERT_DER: &[u8] = include_bytes!("../certs/ed25519.cert.der");
static KEY_DER: &[u8] = include_bytes!("../certs/ed25519.key.der");

pub struct Pair {
    pub server: quinn::Endpoint,
    pub client: quinn::Endpoint,
}
pub const SERVER_ADDR: &str = "10.0.0.1:443";

/// two Quinn endpoints on the simulated network; `tune` adjusts the transport parameters of each side
pub fn endpoints(tune_server: impl FnOnce(&mut quinn::TransportConfig), tune_client: impl FnOnce(&mut quinn::TransportConfig)) -> Pair {
    let rt: Arc<dyn Runtime> = Arc::new(SimRuntime);
    let cert_der = rustls::pki_types::CertificateDer::from(CERT_DER.to_vec());
    let key_der = rustls::pki_types::PrivateKeyDer::Pkcs8(KEY_DER.to_vec().into());
    let prov = Arc::new(rustls::crypto::ring::default_provider());
    let mut sc = rustls::ServerConfig::builder_with_provider(prov.clone()).with_protocol_versions(&[&rustls::version::TLS13]).unwrap().with_no_client_auth().with_single_cert(vec![cert_der.clone()], key_der).unwrap();
    sc.alpn_protocols = vec![b"h3".to_vec()];
    let mut server_config = quinn::ServerConfig::with_crypto(Arc::new(quinn::crypto::rustls::QuicServerConfig::try_from(sc).unwrap()));
    let mut tc = quinn::TransportConfig::default();
    tune_server(&mut tc);
    server_config.transport = Arc::new(tc);
    let mut roots = rustls::RootCertStore::empty();
    roots.add(cert_der).unwrap();
    let mut cc = rustls::ClientConfig::builder_with_provider(prov).with_protocol_versions(&[&rustls::version::TLS13]).unwrap().with_root_certificates(roots).with_no_client_auth();
    cc.alpn_protocols = vec![b"h3".to_vec()];
    let mut client_config = quinn::ClientConfig::new(Arc::new(quinn::crypto::rustls::QuicClientConfig::try_from(cc).unwrap()));
    let mut tc = quinn::TransportConfig::default();
    tune_client(&mut tc);
    client_config.transport_config(Arc::new(tc));
    let mut ecfg_s = quinn::EndpointConfig::default();
    ecfg_s.rng_seed(Some([7; 32]));
    let mut ecfg_c = quinn::EndpointConfig::default();
    ecfg_c.rng_seed(Some([9; 32]));
    let server = quinn::Endpoint::new_with_abstract_socket(ecfg_s, Some(server_config), mk_sock(SERVER_ADDR), rt.clone()).unwrap();
    let mut client = quinn::Endpoint::new_with_abstract_socket(ecfg_c, None, mk_sock("10.0.0.2:5000"), rt).unwrap();
    client.set_default_client_config(client_config);
    Pair { server, client }
}

/// write a fresh fixed certificate (run once; the files are checked in)
pub fn gen_cert(dir: &str) {
    let key = rcgen::KeyPair::generate_for(&rcgen::PKCS_ED25519).unwrap();
    let cert = rcgen::CertificateParams::new(vec!["localhost".to_string()]).unwrap().self_signed(&key).unwrap();
    std::fs::create_dir_all(dir).unwrap();
    std::fs::write(format!("{dir}/ed25519.cert.der"), cert.der().to_vec()).unwrap();
    std::fs::write(format!("{dir}/ed25519.key.der"), key.serialize_der()).unwrap();
}

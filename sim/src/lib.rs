pub mod checks;
pub mod choice;
pub mod e3;
pub mod exec;
pub mod net;
pub mod obs;
pub mod refs;
pub mod runner;

//! The choice source: one integer decides everything, and runs shrink.
//!
//! Every decision of a run (schedule, chunk sizes, faults, generated workload) is drawn through
//! `draw(n)`. Recording mode draws from a PRNG seeded from (VERIF_SEED, check id, run index) and logs
//! the values; replay mode reads a stored vector (exhausted / out-of-range entries read as 0).
//! By convention 0 is always the simplest choice.
use std::cell::RefCell;

#[derive(Clone)]
pub struct Rng(u64, u64, u64, u64);

fn splitmix(x: &mut u64) -> u64 {
    *x = x.wrapping_add(0x9E3779B97F4A7C15);
    let mut z = *x;
    z = (z ^ (z >> 30)).wrapping_mul(0xBF58476D1CE4E5B9);
    z = (z ^ (z >> 27)).wrapping_mul(0x94D049BB133111EB);
    z ^ (z >> 31)
}

impl Rng {
    pub fn new(seed: u64) -> Self {
        let mut s = seed;
        Rng(splitmix(&mut s), splitmix(&mut s), splitmix(&mut s), splitmix(&mut s))
    }
    // xoshiro256**
    pub fn next(&mut self) -> u64 {
        let r = self.1.wrapping_mul(5).rotate_left(7).wrapping_mul(9);
        let t = self.1 << 17;
        self.2 ^= self.0;
        self.3 ^= self.1;
        self.1 ^= self.2;
        self.0 ^= self.3;
        self.2 ^= t;
        self.3 = self.3.rotate_left(45);
        r
    }
    pub fn below(&mut self, n: u32) -> u32 {
        ((self.next() >> 32) * n as u64 >> 32) as u32
    }
}

pub fn mix(a: u64, b: u64) -> u64 {
    let mut s = a ^ b.wrapping_mul(0x9E3779B97F4A7C15).rotate_left(23);
    splitmix(&mut s)
}

pub fn hash_str(s: &str) -> u64 {
    let mut h = 0xcbf29ce484222325u64;
    for b in s.bytes() {
        h ^= b as u64;
        h = h.wrapping_mul(0x100000001b3);
    }
    h
}

pub struct Choices {
    rng: Rng,
    replay: Option<Vec<u32>>,
    pos: usize,
    pub rec: Vec<u32>,
    pub limit: usize,
    pub exhausted: bool,
}

impl Choices {
    pub fn seeded(seed: u64) -> Self {
        Choices { rng: Rng::new(seed), replay: None, pos: 0, rec: Vec::with_capacity(256), limit: 4_000_000, exhausted: false }
    }
    pub fn replay(v: Vec<u32>) -> Self {
        Choices { rng: Rng::new(0), replay: Some(v), pos: 0, rec: Vec::with_capacity(256), limit: 4_000_000, exhausted: false }
    }
    pub fn draw(&mut self, n: u32) -> u32 {
        if n <= 1 {
            return 0;
        }
        if self.rec.len() >= self.limit {
            self.exhausted = true;
            return 0;
        }
        let v = match &self.replay {
            Some(r) => {
                let v = r.get(self.pos).copied().unwrap_or(0);
                self.pos += 1;
                if v >= n { 0 } else { v }
            }
            None => self.rng.below(n),
        };
        self.rec.push(v);
        v
    }
}

thread_local! {
    static CH: RefCell<Option<Choices>> = const { RefCell::new(None) };
}

pub fn install(c: Choices) {
    CH.with(|x| *x.borrow_mut() = Some(c));
}
pub fn take() -> Choices {
    CH.with(|x| x.borrow_mut().take().expect("no choice source installed"))
}

/// value in 0..n ; 0 is the simplest choice
pub fn draw(n: u32) -> u32 {
    CH.with(|c| c.borrow_mut().as_mut().expect("no choice source").draw(n))
}
pub fn draw_usize(n: usize) -> usize {
    draw(n.min(u32::MAX as usize) as u32) as usize
}
/// true with probability num/den; false is the simple choice
pub fn chance(num: u32, den: u32) -> bool {
    if num == 0 {
        return false;
    }
    draw(den) >= den - num.min(den)
}
pub fn flip() -> bool {
    draw(2) == 1
}
pub fn pick<'a, T>(xs: &'a [T]) -> &'a T {
    &xs[draw_usize(xs.len())]
}
/// a size in 1..=max biased towards "all" (choice 0), tiny values, and small values
pub fn draw_size(max: usize) -> usize {
    if max <= 1 {
        return max;
    }
    match draw(8) {
        0 | 1 => max,
        2 => 1,
        3 => 2.min(max),
        4 => 3.min(max),
        5 => 1 + draw_usize(max.min(16)),
        6 => 1 + draw_usize(max.min(256)),
        _ => 1 + draw_usize(max),
    }
    .min(max)
}
/// integer in lo..=hi, lo is simplest
pub fn draw_range(lo: u64, hi: u64) -> u64 {
    if hi <= lo {
        return lo;
    }
    let span = hi - lo + 1;
    if span <= u32::MAX as u64 {
        lo + draw(span as u32) as u64
    } else {
        let a = draw(u32::MAX) as u64;
        let b = draw(u32::MAX) as u64;
        lo + ((a << 32) | b) % span
    }
}
pub fn draw_bytes(len: usize) -> Vec<u8> {
    // cheap: one draw seeds a local generator, so that long payloads do not bloat the vector
    let s = draw(u32::MAX) as u64;
    let mut r = Rng::new(s);
    (0..len).map(|_| r.next() as u8).collect()
}

use h3sim::checks;
use h3sim::runner::{run_check, Options, Tier};

fn main() {
    let args: Vec<String> = std::env::args().skip(1).collect();
    if args.is_empty() {
        eprintln!("usage: h3sim <CHECK-ID> [--tier quick|thorough] [--runs N] [--seed S] [--workers N] [--replay FILE] [--max-wall SECONDS] [--no-evidence] [--dump-hashes FILE]");
        std::process::exit(2);
    }
    let id = args[0].clone();
    if id == "gen-cert" {
        h3sim::e3::gen_cert(args.get(1).map(|s| s.as_str()).unwrap_or("/verif/sim/certs"));
        return;
    }
    let mut opt = Options {
        tier: match std::env::var("VERIF_TIER").ok().as_deref() {
            Some("thorough") => Tier::Thorough,
            _ => Tier::Quick,
        },
        seed: std::env::var("VERIF_SEED").ok().and_then(|s| s.parse().ok()).unwrap_or(20260925),
        runs: None,
        workers: std::thread::available_parallelism().map(|n| n.get()).unwrap_or(4),
        max_wall_s: 0.0,
        replay: None,
        dump_hashes: None,
        report_classes: 12,
        verif_dir: std::env::var("VERIF_DIR").unwrap_or_else(|_| "/verif".into()),
        shrink_budget: 3000,
        no_evidence: false,
    };
    let mut i = 1;
    while i < args.len() {
        let a = args[i].as_str();
        let mut val = || {
            i += 1;
            args.get(i).cloned().unwrap_or_else(|| {
                eprintln!("missing value for {a}");
                std::process::exit(2)
            })
        };
        match a {
            "--tier" => opt.tier = if val() == "thorough" { Tier::Thorough } else { Tier::Quick },
            "--runs" => opt.runs = val().parse().ok(),
            "--seed" => opt.seed = val().parse().unwrap_or(opt.seed),
            "--workers" => opt.workers = val().parse().unwrap_or(opt.workers),
            "--replay" => opt.replay = Some(val()),
            "--max-wall" => opt.max_wall_s = val().parse().unwrap_or(0.0),
            "--no-evidence" => opt.no_evidence = true,
            "--dump-hashes" => opt.dump_hashes = Some(val()),
            "--report-classes" => opt.report_classes = val().parse().unwrap_or(12),
            "--shrink-budget" => opt.shrink_budget = val().parse().unwrap_or(3000),
            _ => {
                eprintln!("unknown argument {a}");
                std::process::exit(2)
            }
        }
        i += 1;
    }
    if opt.max_wall_s == 0.0 {
        opt.max_wall_s = match opt.tier {
            Tier::Quick => 120.0,
            Tier::Thorough => 1500.0,
        };
    }
    h3sim::exec::install_panic_hook();
    let Some(check) = checks::get(&id) else {
        eprintln!("unknown check {id}; known: {:?}", checks::ids());
        std::process::exit(2);
    };
    std::process::exit(run_check(check.as_ref(), &opt));
}

//! RFC 9204 with the dynamic table: table model, encoder-stream and decoder-stream instruction
//! parsers, field-section decoder with Required Insert Count / Base reconstruction (§4.5.1).
//! Written from the RFC text; used by C20 as the judge of what the real encoder emits.
use super::qpack::{get_int, huffman_decode, Field, STATIC};
use std::collections::VecDeque;

#[derive(Debug, Clone, PartialEq)]
pub enum RefErr {
    /// more bytes are needed (instruction or section cut)
    Incomplete,
    Invalid(String),
    /// Required Insert Count exceeds the number of insertions received so far
    Blocked(u64),
}

fn get_string(b: &[u8], prefix_bits: u8) -> Result<(Vec<u8>, usize), RefErr> {
    let h = *b.first().ok_or(RefErr::Incomplete)? & (1 << prefix_bits) != 0;
    let (len, n) = get_int(b, prefix_bits).map_err(int_err)?;
    let len = len as usize;
    if b.len() < n + len {
        return Err(RefErr::Incomplete);
    }
    let raw = &b[n..n + len];
    let s = if h { huffman_decode(raw).map_err(|e| RefErr::Invalid(e.into()))? } else { raw.to_vec() };
    Ok((s, n + len))
}
fn int_err(e: &'static str) -> RefErr {
    if e.starts_with("truncated") {
        RefErr::Incomplete
    } else {
        RefErr::Invalid(e.into())
    }
}

#[derive(Debug, Clone, Default)]
pub struct Table {
    /// oldest first
    pub entries: VecDeque<Field>,
    pub capacity: usize,
    /// number of entries ever inserted (= absolute index of the next insertion)
    pub inserted: u64,
    pub size: usize,
    pub evicted: u64,
}
impl Table {
    pub fn entry_size(f: &Field) -> usize {
        f.0.len() + f.1.len() + 32
    }
    pub fn set_capacity(&mut self, c: usize) {
        self.capacity = c;
        while self.size > self.capacity {
            self.evict_one();
        }
    }
    fn evict_one(&mut self) {
        if let Some(f) = self.entries.pop_front() {
            self.size -= Self::entry_size(&f);
            self.evicted += 1;
        }
    }
    pub fn insert(&mut self, f: Field) -> Result<(), RefErr> {
        let s = Self::entry_size(&f);
        if s > self.capacity {
            return Err(RefErr::Invalid(format!("entry of size {s} larger than the table capacity {}", self.capacity)));
        }
        while self.size + s > self.capacity {
            self.evict_one();
        }
        self.size += s;
        self.entries.push_back(f);
        self.inserted += 1;
        Ok(())
    }
    /// entry by absolute index
    pub fn get_abs(&self, abs: u64) -> Result<&Field, RefErr> {
        if abs >= self.inserted {
            return Err(RefErr::Invalid(format!("reference to entry {abs} which has not been inserted yet ({} insertions)", self.inserted)));
        }
        if abs < self.evicted {
            return Err(RefErr::Invalid(format!("reference to entry {abs} which has been evicted ({} evicted)", self.evicted)));
        }
        Ok(&self.entries[(abs - self.evicted) as usize])
    }
}

#[derive(Debug, Clone, PartialEq)]
pub enum EncInstr {
    SetCapacity(u64),
    Insert(Field),
}

/// Parse and apply as many complete encoder-stream instructions as `buf` holds; returns bytes consumed.
pub fn apply_encoder_stream(t: &mut Table, buf: &[u8], log: &mut Vec<EncInstr>) -> Result<usize, RefErr> {
    let mut off = 0;
    loop {
        let b = &buf[off..];
        let Some(&first) = b.first() else { return Ok(off) };
        let r: Result<(EncInstr, usize), RefErr> = (|| {
            if first & 0x80 != 0 {
                // Insert With Name Reference: 1 T index(6+)
                let stat = first & 0x40 != 0;
                let (idx, n) = get_int(b, 6).map_err(int_err)?;
                let name = if stat {
                    STATIC.get(idx as usize).ok_or_else(|| RefErr::Invalid("static index out of range".into()))?.0.as_bytes().to_vec()
                } else {
                    // relative to the insertion point: 0 = most recently inserted
                    let abs = t.inserted.checked_sub(1 + idx).ok_or_else(|| RefErr::Invalid("relative index out of range".into()))?;
                    t.get_abs(abs)?.0.clone()
                };
                let (v, m) = get_string(&b[n..], 7)?;
                Ok((EncInstr::Insert((name, v)), n + m))
            } else if first & 0x40 != 0 {
                // Insert With Literal Name: 01 H namelen(5+)
                let (name, n) = get_string(b, 5)?;
                let (v, m) = get_string(&b[n..], 7)?;
                Ok((EncInstr::Insert((name, v)), n + m))
            } else if first & 0x20 != 0 {
                let (c, n) = get_int(b, 5).map_err(int_err)?;
                Ok((EncInstr::SetCapacity(c), n))
            } else {
                // Duplicate: 000 index(5+)
                let (idx, n) = get_int(b, 5).map_err(int_err)?;
                let abs = t.inserted.checked_sub(1 + idx).ok_or_else(|| RefErr::Invalid("duplicate index out of range".into()))?;
                let f = t.get_abs(abs)?.clone();
                Ok((EncInstr::Insert(f), n))
            }
        })();
        match r {
            Err(RefErr::Incomplete) => return Ok(off),
            Err(e) => return Err(e),
            Ok((ins, n)) => {
                match &ins {
                    EncInstr::SetCapacity(c) => t.set_capacity(*c as usize),
                    EncInstr::Insert(f) => t.insert(f.clone())?,
                }
                log.push(ins);
                off += n;
            }
        }
    }
}

#[derive(Debug, Clone, PartialEq)]
pub enum DecInstr {
    SectionAck(u64),
    StreamCancel(u64),
    InsertCountIncrement(u64),
}
pub fn parse_decoder_stream(buf: &[u8]) -> Result<(Vec<DecInstr>, usize), RefErr> {
    let mut off = 0;
    let mut out = vec![];
    loop {
        let b = &buf[off..];
        let Some(&first) = b.first() else { return Ok((out, off)) };
        let r = if first & 0x80 != 0 {
            get_int(b, 7).map(|(v, n)| (DecInstr::SectionAck(v), n))
        } else if first & 0x40 != 0 {
            get_int(b, 6).map(|(v, n)| (DecInstr::StreamCancel(v), n))
        } else {
            get_int(b, 6).map(|(v, n)| (DecInstr::InsertCountIncrement(v), n))
        };
        match r.map_err(int_err) {
            Err(RefErr::Incomplete) => return Ok((out, off)),
            Err(e) => return Err(e),
            Ok((i, n)) => {
                out.push(i);
                off += n;
            }
        }
    }
}

/// Required Insert Count and Base of a field section (RFC 9204 §4.5.1), given the maximum table
/// capacity the encoder was told and the number of insertions the decoder has received.
pub fn section_prefix(b: &[u8], max_capacity: usize, total_inserts: u64) -> Result<(u64, u64, usize), RefErr> {
    let (enc_ric, n1) = get_int(b, 8).map_err(int_err)?;
    let max_entries = (max_capacity / 32) as u64;
    let ric = if enc_ric == 0 {
        0
    } else {
        if max_entries == 0 {
            return Err(RefErr::Invalid("non-zero Required Insert Count with a zero-capacity table".into()));
        }
        let full = 2 * max_entries;
        if enc_ric > full {
            return Err(RefErr::Invalid("encoded Required Insert Count too large".into()));
        }
        let max_value = total_inserts + max_entries;
        let max_wrapped = (max_value / full) * full;
        let mut r = max_wrapped + enc_ric - 1;
        if r > max_value {
            if r <= full {
                return Err(RefErr::Invalid("Required Insert Count cannot be reconstructed".into()));
            }
            r -= full;
        }
        if r == 0 {
            return Err(RefErr::Invalid("Required Insert Count decodes to zero".into()));
        }
        r
    };
    let rest = &b[n1..];
    let s = *rest.first().ok_or(RefErr::Incomplete)? & 0x80 != 0;
    let (delta, n2) = get_int(rest, 7).map_err(int_err)?;
    let base = if !s {
        ric + delta
    } else {
        ric.checked_sub(delta + 1).ok_or_else(|| RefErr::Invalid("negative Base".into()))?
    };
    Ok((ric, base, n1 + n2))
}

/// Decode a complete field section against the table (RFC 9204 §4.5).
pub fn decode_section(t: &Table, b: &[u8], max_capacity: usize) -> Result<(Vec<Field>, u64), RefErr> {
    let (ric, base, mut off) = section_prefix(b, max_capacity, t.inserted)?;
    if ric > t.inserted {
        return Err(RefErr::Blocked(ric));
    }
    let dyn_abs = |abs: Option<u64>| -> Result<&Field, RefErr> {
        let abs = abs.ok_or_else(|| RefErr::Invalid("relative index below zero".into()))?;
        if abs >= ric {
            return Err(RefErr::Invalid(format!("reference to entry {abs} at or beyond the Required Insert Count {ric}")));
        }
        t.get_abs(abs)
    };
    let mut out = vec![];
    while off < b.len() {
        let f = b[off];
        let rest = &b[off..];
        if f & 0x80 != 0 {
            let (idx, n) = get_int(rest, 6).map_err(int_err)?;
            let e = if f & 0x40 != 0 {
                let s = STATIC.get(idx as usize).ok_or_else(|| RefErr::Invalid("static index out of range".into()))?;
                (s.0.as_bytes().to_vec(), s.1.as_bytes().to_vec())
            } else {
                dyn_abs(base.checked_sub(idx + 1))?.clone()
            };
            out.push(e);
            off += n;
        } else if f & 0x40 != 0 {
            let (idx, n) = get_int(rest, 4).map_err(int_err)?;
            let name = if f & 0x10 != 0 { STATIC.get(idx as usize).ok_or_else(|| RefErr::Invalid("static index out of range".into()))?.0.as_bytes().to_vec() } else { dyn_abs(base.checked_sub(idx + 1))?.0.clone() };
            let (v, m) = get_string(&rest[n..], 7)?;
            out.push((name, v));
            off += n + m;
        } else if f & 0x20 != 0 {
            let (name, n) = get_string(rest, 3)?;
            let (v, m) = get_string(&rest[n..], 7)?;
            out.push((name, v));
            off += n + m;
        } else if f & 0x10 != 0 {
            let (idx, n) = get_int(rest, 4).map_err(int_err)?;
            out.push(dyn_abs(Some(base + idx))?.clone());
            off += n;
        } else {
            let (idx, n) = get_int(rest, 3).map_err(int_err)?;
            let name = dyn_abs(Some(base + idx))?.0.clone();
            let (v, m) = get_string(&rest[n..], 7)?;
            out.push((name, v));
            off += n + m;
        }
    }
    Ok((out, ric))
}

#[cfg(test)]
mod tests {
    use super::*;
    fn f(n: &str, v: &str) -> Field {
        (n.as_bytes().to_vec(), v.as_bytes().to_vec())
    }
    #[test]
    fn rfc9204_appendix_b() {
        // B.2: Set Dynamic Table Capacity=220; Insert With Name Reference static 0 (:authority) www.example.com;
        //      Insert With Name Reference static 1 (:path) /sample/path
        let enc: Vec<u8> = [&[0x3f, 0xbd, 0x01][..], &[0xc0, 0x0f], b"www.example.com", &[0xc1, 0x0c], b"/sample/path"].concat();
        let mut t = Table::default();
        let mut log = vec![];
        assert_eq!(apply_encoder_stream(&mut t, &enc, &mut log), Ok(enc.len()));
        assert_eq!(t.capacity, 220);
        assert_eq!(t.inserted, 2);
        assert_eq!(t.size, 106);
        // field section: Required Insert Count = 2, Base = 0; post-base index 0 and 1
        let sec = [0x03, 0x81, 0x10, 0x11];
        let (fields, ric) = decode_section(&t, &sec, 220).unwrap();
        assert_eq!(ric, 2);
        assert_eq!(fields, vec![f(":authority", "www.example.com"), f(":path", "/sample/path")]);
        // blocked before the instructions arrive
        let t0 = Table { capacity: 220, ..Default::default() };
        assert_eq!(decode_section(&t0, &sec, 220), Err(RefErr::Blocked(2)));
        // B.3: Insert With Literal Name custom-key custom-value; Section Acknowledgment stream 4
        let enc2: Vec<u8> = [&[0x4a][..], b"custom-key", &[0x0c], b"custom-value"].concat();
        assert_eq!(apply_encoder_stream(&mut t, &enc2, &mut log), Ok(enc2.len()));
        assert_eq!(t.inserted, 3);
        assert_eq!(parse_decoder_stream(&[0x84]), Ok((vec![DecInstr::SectionAck(4)], 1)));
        assert_eq!(parse_decoder_stream(&[0x01]), Ok((vec![DecInstr::InsertCountIncrement(1)], 1)));
        // B.4: Duplicate (relative index 2) -> :authority again; section: RIC 4, Base 4: indexed dynamic 0, static :path=/ (0xc1), dynamic 1
        assert_eq!(apply_encoder_stream(&mut t, &[0x02], &mut log), Ok(1));
        assert_eq!(t.inserted, 4);
        let sec4 = [0x05, 0x00, 0x80, 0xc1, 0x81];
        let (fields, ric) = decode_section(&t, &sec4, 220).unwrap();
        assert_eq!(ric, 4);
        assert_eq!(fields, vec![f(":authority", "www.example.com"), f(":path", "/"), f("custom-key", "custom-value")]);
        // B.5: Insert With Name Reference dynamic relative 1 (custom-key) custom-value2 -> evicts the first entry
        let enc5: Vec<u8> = [&[0x81, 0x0d][..], b"custom-value2"].concat();
        assert_eq!(apply_encoder_stream(&mut t, &enc5, &mut log), Ok(enc5.len()));
        assert_eq!(t.inserted, 5);
        assert_eq!(t.evicted, 1);
        assert_eq!(t.size, 215);
        // partial instruction is left unconsumed
        assert_eq!(apply_encoder_stream(&mut t.clone(), &enc5[..5], &mut log), Ok(0));
    }
}

//! RFC 9000 §16 variable-length integers.
pub const MAX: u64 = (1 << 62) - 1;

/// decode one varint from the front of `b`: (value, encoded length); None if truncated
pub fn decode(b: &[u8]) -> Option<(u64, usize)> {
    let first = *b.first()?;
    let n = 1usize << (first >> 6);
    if b.len() < n {
        return None;
    }
    let mut v = (first & 0x3f) as u64;
    for x in &b[1..n] {
        v = (v << 8) | *x as u64;
    }
    Some((v, n))
}
/// encoded length announced by a first byte
pub fn len_of_first(first: u8) -> usize {
    1usize << (first >> 6)
}
pub fn size(v: u64) -> usize {
    if v < 1 << 6 {
        1
    } else if v < 1 << 14 {
        2
    } else if v < 1 << 30 {
        4
    } else {
        8
    }
}
/// shortest form
pub fn encode(v: u64) -> Vec<u8> {
    encode_form(v, size(v).trailing_zeros() as usize).unwrap()
}
/// forced form: 0 => 1 byte, 1 => 2, 2 => 4, 3 => 8 bytes; None if the value does not fit
pub fn encode_form(v: u64, form: usize) -> Option<Vec<u8>> {
    let n = 1usize << form;
    let bits = 8 * n - 2;
    if bits < 64 && v >> bits != 0 {
        return None;
    }
    if v > MAX {
        return None;
    }
    let mut out = vec![0u8; n];
    for i in 0..n {
        out[n - 1 - i] = (v >> (8 * i)) as u8;
    }
    out[0] = (out[0] & 0x3f) | ((form as u8) << 6);
    Some(out)
}
/// smallest admissible form index for v
pub fn min_form(v: u64) -> usize {
    size(v).trailing_zeros() as usize
}
pub fn put(out: &mut Vec<u8>, v: u64) {
    out.extend_from_slice(&encode(v));
}

#[cfg(test)]
mod tests {
    use super::*;
    #[test]
    fn rfc_examples() {
        // RFC 9000 A.1
        assert_eq!(decode(&[0xc2, 0x19, 0x7c, 0x5e, 0xff, 0x14, 0xe8, 0x8c]), Some((151_288_809_941_952_652, 8)));
        assert_eq!(decode(&[0x9d, 0x7f, 0x3e, 0x7d]), Some((494_878_333, 4)));
        assert_eq!(decode(&[0x7b, 0xbd]), Some((15_293, 2)));
        assert_eq!(decode(&[0x25]), Some((37, 1)));
        assert_eq!(decode(&[0x40, 0x25]), Some((37, 2)));
        assert_eq!(encode(15_293), vec![0x7b, 0xbd]);
        assert_eq!(encode(37), vec![0x25]);
        assert_eq!(encode_form(37, 1), Some(vec![0x40, 0x25]));
        assert_eq!(encode_form(1 << 14, 1), None);
        assert_eq!(decode(&[0x40]), None);
        for v in [0, 63, 64, 16383, 16384, (1 << 30) - 1, 1 << 30, MAX] {
            for f in min_form(v)..4 {
                let e = encode_form(v, f).unwrap();
                assert_eq!(decode(&e), Some((v, 1 << f)));
            }
        }
    }
}

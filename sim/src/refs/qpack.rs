//! RFC 9204 restricted to the static table and literals (the subset h3 uses on the wire):
//! encoder with selectable representations, decoder, field-section size rule (RFC 9114 §4.2.2).
//! Huffman coding is the independent implementation in Cloudflare's `octets`.

pub type Field = (Vec<u8>, Vec<u8>);

pub const STATIC: [(&str, &str); 99] = [
    (":authority", ""),
    (":path", "/"),
    ("age", "0"),
    ("content-disposition", ""),
    ("content-length", "0"),
    ("cookie", ""),
    ("date", ""),
    ("etag", ""),
    ("if-modified-since", ""),
    ("if-none-match", ""),
    ("last-modified", ""),
    ("link", ""),
    ("location", ""),
    ("referer", ""),
    ("set-cookie", ""),
    (":method", "CONNECT"),
    (":method", "DELETE"),
    (":method", "GET"),
    (":method", "HEAD"),
    (":method", "OPTIONS"),
    (":method", "POST"),
    (":method", "PUT"),
    (":scheme", "http"),
    (":scheme", "https"),
    (":status", "103"),
    (":status", "200"),
    (":status", "304"),
    (":status", "404"),
    (":status", "503"),
    ("accept", "*/*"),
    ("accept", "application/dns-message"),
    ("accept-encoding", "gzip, deflate, br"),
    ("accept-ranges", "bytes"),
    ("access-control-allow-headers", "cache-control"),
    ("access-control-allow-headers", "content-type"),
    ("access-control-allow-origin", "*"),
    ("cache-control", "max-age=0"),
    ("cache-control", "max-age=2592000"),
    ("cache-control", "max-age=604800"),
    ("cache-control", "no-cache"),
    ("cache-control", "no-store"),
    ("cache-control", "public, max-age=31536000"),
    ("content-encoding", "br"),
    ("content-encoding", "gzip"),
    ("content-type", "application/dns-message"),
    ("content-type", "application/javascript"),
    ("content-type", "application/json"),
    ("content-type", "application/x-www-form-urlencoded"),
    ("content-type", "image/gif"),
    ("content-type", "image/jpeg"),
    ("content-type", "image/png"),
    ("content-type", "text/css"),
    ("content-type", "text/html; charset=utf-8"),
    ("content-type", "text/plain"),
    ("content-type", "text/plain;charset=utf-8"),
    ("range", "bytes=0-"),
    ("strict-transport-security", "max-age=31536000"),
    ("strict-transport-security", "max-age=31536000; includesubdomains"),
    ("strict-transport-security", "max-age=31536000; includesubdomains; preload"),
    ("vary", "accept-encoding"),
    ("vary", "origin"),
    ("x-content-type-options", "nosniff"),
    ("x-xss-protection", "1; mode=block"),
    (":status", "100"),
    (":status", "204"),
    (":status", "206"),
    (":status", "302"),
    (":status", "400"),
    (":status", "403"),
    (":status", "421"),
    (":status", "425"),
    (":status", "500"),
    ("accept-language", ""),
    ("access-control-allow-credentials", "FALSE"),
    ("access-control-allow-credentials", "TRUE"),
    ("access-control-allow-headers", "*"),
    ("access-control-allow-methods", "get"),
    ("access-control-allow-methods", "get, post, options"),
    ("access-control-allow-methods", "options"),
    ("access-control-expose-headers", "content-length"),
    ("access-control-request-headers", "content-type"),
    ("access-control-request-method", "get"),
    ("access-control-request-method", "post"),
    ("alt-svc", "clear"),
    ("authorization", ""),
    ("content-security-policy", "script-src 'none'; object-src 'none'; base-uri 'none'"),
    ("early-data", "1"),
    ("expect-ct", ""),
    ("forwarded", ""),
    ("if-range", ""),
    ("origin", ""),
    ("purpose", "prefetch"),
    ("server", ""),
    ("timing-allow-origin", "*"),
    ("upgrade-insecure-requests", "1"),
    ("user-agent", ""),
    ("x-forwarded-for", ""),
    ("x-frame-options", "deny"),
    ("x-frame-options", "sameorigin"),
];

/// RFC 9114 §4.2.2: sum over fields of name length + value length + 32
pub fn section_size(fields: &[Field]) -> u64 {
    fields.iter().map(|(n, v)| (n.len() + v.len() + 32) as u64).sum()
}

// ---- prefixed integers (RFC 7541 §5.1)
pub fn put_int(out: &mut Vec<u8>, prefix_bits: u8, flags: u8, mut v: u64) {
    let max = (1u64 << prefix_bits) - 1;
    if v < max {
        out.push(flags | v as u8);
        return;
    }
    out.push(flags | max as u8);
    v -= max;
    while v >= 128 {
        out.push((v % 128) as u8 | 0x80);
        v /= 128;
    }
    out.push(v as u8);
}
/// returns (value, bytes consumed)
pub fn get_int(b: &[u8], prefix_bits: u8) -> Result<(u64, usize), &'static str> {
    let max = (1u64 << prefix_bits) - 1;
    let first = *b.first().ok_or("truncated integer")? as u64 & max;
    if first < max {
        return Ok((first, 1));
    }
    let mut v = max;
    let mut shift = 0u32;
    let mut i = 1;
    loop {
        let x = *b.get(i).ok_or("truncated integer")?;
        i += 1;
        if shift > 62 {
            return Err("integer overflow");
        }
        let add = ((x & 0x7f) as u64).checked_shl(shift).ok_or("integer overflow")?;
        if shift > 0 && (add >> shift) != (x & 0x7f) as u64 {
            return Err("integer overflow");
        }
        v = v.checked_add(add).ok_or("integer overflow")?;
        shift += 7;
        if x & 0x80 == 0 {
            return Ok((v, i));
        }
    }
}

// ---- strings
pub fn huffman_encode(s: &[u8]) -> Vec<u8> {
    // longest HPACK code is 30 bits
    let mut buf = vec![0u8; s.len() * 4 + 8];
    let n = {
        let mut o = octets::OctetsMut::with_slice(&mut buf);
        o.put_huffman_encoded::<false>(s).expect("huffman encode");
        o.off()
    };
    buf.truncate(n);
    buf
}
pub fn huffman_decode(b: &[u8]) -> Result<Vec<u8>, &'static str> {
    let mut o = octets::Octets::with_slice(b);
    o.get_huffman_decoded().map_err(|_| "bad huffman")
}
fn put_string(out: &mut Vec<u8>, prefix_bits: u8, flags: u8, s: &[u8], huffman: bool) {
    if huffman {
        let h = huffman_encode(s);
        put_int(out, prefix_bits, flags | (1 << prefix_bits), h.len() as u64);
        out.extend(h);
    } else {
        put_int(out, prefix_bits, flags, s.len() as u64);
        out.extend_from_slice(s);
    }
}
fn get_string(b: &[u8], prefix_bits: u8) -> Result<(Vec<u8>, usize), &'static str> {
    let h = *b.first().ok_or("truncated string")? & (1 << prefix_bits) != 0;
    let (len, n) = get_int(b, prefix_bits)?;
    let len = usize::try_from(len).map_err(|_| "string too long")?;
    let end = n.checked_add(len).ok_or("string too long")?;
    if b.len() < end {
        return Err("truncated string");
    }
    let raw = &b[n..end];
    let s = if h { huffman_decode(raw)? } else { raw.to_vec() };
    Ok((s, end))
}

// ---- encoder
#[derive(Clone, Copy, Debug, PartialEq)]
pub enum Style {
    /// literal name, literal value, no Huffman — the most naive encoding
    Plain,
    /// best static representation, Huffman strings
    Compact,
    /// per-field representation chosen by `pick(n) -> 0..n`
    Drawn,
}

pub fn find_static(name: &[u8], value: &[u8]) -> (Option<usize>, Option<usize>) {
    let mut full = None;
    let mut nm = None;
    for (i, (n, v)) in STATIC.iter().enumerate() {
        if n.as_bytes() == name {
            if nm.is_none() {
                nm = Some(i);
            }
            if v.as_bytes() == value && full.is_none() {
                full = Some(i);
            }
        }
    }
    (full, nm)
}

pub fn encode(fields: &[Field], style: Style, mut pick: impl FnMut(u32) -> u32) -> Vec<u8> {
    let mut out = vec![0u8, 0u8]; // Required Insert Count = 0, Base delta = 0
    for (name, value) in fields {
        let (full, nm) = find_static(name, value);
        // candidate representations: 0 literal name, 1 static name ref, 2 static indexed
        let mut cands = vec![0u8];
        if nm.is_some() {
            cands.push(1);
        }
        if full.is_some() {
            cands.push(2);
        }
        let (repr, huff_n, huff_v, never) = match style {
            Style::Plain => (0, false, false, false),
            Style::Compact => (*cands.last().unwrap(), true, true, false),
            Style::Drawn => (cands[pick(cands.len() as u32) as usize], pick(2) == 1, pick(2) == 1, pick(4) == 3),
        };
        match repr {
            2 => put_int(&mut out, 6, 0b1100_0000, full.unwrap() as u64),
            1 => {
                put_int(&mut out, 4, 0b0101_0000 | if never { 0b0010_0000 } else { 0 }, nm.unwrap() as u64);
                put_string(&mut out, 7, 0, value, huff_v);
            }
            _ => {
                put_string(&mut out, 3, 0b0010_0000 | if never { 0b0001_0000 } else { 0 }, name, huff_n);
                put_string(&mut out, 7, 0, value, huff_v);
            }
        }
    }
    out
}
pub fn encode_plain(fields: &[Field]) -> Vec<u8> {
    encode(fields, Style::Plain, |_| 0)
}

// ---- decoder (static + literal only)
pub fn decode(b: &[u8]) -> Result<Vec<Field>, &'static str> {
    let (ric, n1) = get_int(b, 8)?;
    if ric != 0 {
        return Err("dynamic table reference (required insert count != 0)");
    }
    let (_base, n2) = get_int(&b[n1..], 7)?;
    let mut off = n1 + n2;
    let mut out = vec![];
    while off < b.len() {
        let f = b[off];
        if f & 0x80 != 0 {
            // indexed field line
            if f & 0x40 == 0 {
                return Err("dynamic indexed field line");
            }
            let (idx, n) = get_int(&b[off..], 6)?;
            let e = STATIC.get(idx as usize).ok_or("static index out of range")?;
            out.push((e.0.as_bytes().to_vec(), e.1.as_bytes().to_vec()));
            off += n;
        } else if f & 0x40 != 0 {
            // literal with name reference
            if f & 0x10 == 0 {
                return Err("dynamic name reference");
            }
            let (idx, n) = get_int(&b[off..], 4)?;
            let e = STATIC.get(idx as usize).ok_or("static index out of range")?;
            off += n;
            let (v, n) = get_string(&b[off..], 7)?;
            off += n;
            out.push((e.0.as_bytes().to_vec(), v));
        } else if f & 0x20 != 0 {
            // literal with literal name
            let (name, n) = get_string(&b[off..], 3)?;
            off += n;
            let (v, n) = get_string(&b[off..], 7)?;
            off += n;
            out.push((name, v));
        } else {
            return Err("post-base (dynamic) representation");
        }
    }
    Ok(out)
}

#[cfg(test)]
mod tests {
    use super::*;
    #[test]
    fn ints_and_strings() {
        // RFC 7541 C.1
        let mut o = vec![];
        put_int(&mut o, 5, 0, 10);
        assert_eq!(o, [0x0a]);
        let mut o = vec![];
        put_int(&mut o, 5, 0, 1337);
        assert_eq!(o, [0x1f, 0x9a, 0x0a]);
        assert_eq!(get_int(&[0x1f, 0x9a, 0x0a], 5), Ok((1337, 3)));
        let mut o = vec![];
        put_int(&mut o, 8, 0, 42);
        assert_eq!(o, [0x2a]);
        // RFC 7541 C.4.1 huffman "www.example.com"
        assert_eq!(huffman_encode(b"www.example.com"), [0xf1, 0xe3, 0xc2, 0xe5, 0xf2, 0x3a, 0x6b, 0xa0, 0xab, 0x90, 0xf4, 0xff]);
        assert_eq!(huffman_decode(&[0xf1, 0xe3, 0xc2, 0xe5, 0xf2, 0x3a, 0x6b, 0xa0, 0xab, 0x90, 0xf4, 0xff]).unwrap(), b"www.example.com");
    }
    #[test]
    fn round_trip() {
        let fields: Vec<Field> = vec![(b":method".to_vec(), b"GET".to_vec()), (b":path".to_vec(), b"/x".to_vec()), (b"x-a".to_vec(), vec![0xff, 0x00, b'a']), (b"cookie".to_vec(), b"".to_vec())];
        for style in [Style::Plain, Style::Compact] {
            let e = encode(&fields, style, |_| 0);
            assert_eq!(decode(&e).unwrap(), fields);
        }
        let mut k = 0u32;
        let e = encode(&fields, Style::Drawn, |n| {
            k = k.wrapping_mul(31).wrapping_add(7);
            k % n
        });
        assert_eq!(decode(&e).unwrap(), fields);
        // RFC 9204 B.1: literal field line with static name reference, :path = /index.html
        let b1 = [0x00, 0x00, 0x51, 0x0b, 0x2f, 0x69, 0x6e, 0x64, 0x65, 0x78, 0x2e, 0x68, 0x74, 0x6d, 0x6c];
        assert_eq!(decode(&b1).unwrap(), vec![(b":path".to_vec(), b"/index.html".to_vec())]);
        assert_eq!(section_size(&fields), (7 + 3 + 32 + 5 + 2 + 32 + 3 + 3 + 32 + 6 + 0 + 32) as u64);
    }
}

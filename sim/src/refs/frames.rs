//! RFC 9114 §7.1 frame segmentation, §7.2 per-type payload rules, §7.2.4 SETTINGS, §6.2 stream
//! types, §7.2.8 / §6.2.3 reserved identifiers.
use super::varint;

pub const DATA: u64 = 0x0;
pub const HEADERS: u64 = 0x1;
pub const CANCEL_PUSH: u64 = 0x3;
pub const SETTINGS: u64 = 0x4;
pub const PUSH_PROMISE: u64 = 0x5;
pub const GOAWAY: u64 = 0x7;
pub const MAX_PUSH_ID: u64 = 0xd;
pub const H2_TYPES: [u64; 4] = [0x2, 0x6, 0x8, 0x9];
pub const WT_BIDI_SIGNAL: u64 = 0x41;

pub const ST_CONTROL: u64 = 0x0;
pub const ST_PUSH: u64 = 0x1;
pub const ST_QPACK_ENC: u64 = 0x2;
pub const ST_QPACK_DEC: u64 = 0x3;
pub const ST_WT_UNI: u64 = 0x54;

pub const SET_QPACK_MAX_TABLE: u64 = 0x1;
pub const SET_MAX_FIELD_SECTION: u64 = 0x6;
pub const SET_QPACK_BLOCKED: u64 = 0x7;
pub const SET_CONNECT_PROTOCOL: u64 = 0x8;
pub const SET_H3_DATAGRAM: u64 = 0x33;
pub const SET_ENABLE_WT: u64 = 0x2b603742;
pub const SET_WT_MAX_SESSIONS: u64 = 0x2b603743;
pub const SET_H2_RESERVED: [u64; 5] = [0x0, 0x2, 0x3, 0x4, 0x5];

pub fn is_reserved(v: u64) -> bool {
    v >= 0x21 && (v - 0x21) % 0x1f == 0
}
pub fn is_h2_type(t: u64) -> bool {
    H2_TYPES.contains(&t)
}
pub fn is_known_type(t: u64) -> bool {
    matches!(t, DATA | HEADERS | CANCEL_PUSH | SETTINGS | PUSH_PROMISE | GOAWAY | MAX_PUSH_ID)
}

/// minimal encoding of a frame
pub fn frame(ty: u64, payload: &[u8]) -> Vec<u8> {
    let mut v = varint::encode(ty);
    v.extend(varint::encode(payload.len() as u64));
    v.extend_from_slice(payload);
    v
}
/// frame header with forced varint forms and an arbitrary announced length
pub fn header_forms(ty: u64, tform: usize, len: u64, lform: usize) -> Option<Vec<u8>> {
    let mut v = varint::encode_form(ty, tform)?;
    v.extend(varint::encode_form(len, lform)?);
    Some(v)
}
pub fn goaway(id: u64) -> Vec<u8> {
    frame(GOAWAY, &varint::encode(id))
}
pub fn settings(entries: &[(u64, u64)]) -> Vec<u8> {
    let mut p = vec![];
    for (k, v) in entries {
        varint::put(&mut p, *k);
        varint::put(&mut p, *v);
    }
    frame(SETTINGS, &p)
}

#[derive(Debug, Clone, PartialEq)]
pub struct RawFrame {
    pub ty: u64,
    pub start: usize,
    pub payload_start: usize,
    pub end: usize,
    pub payload: Vec<u8>,
}

#[derive(Debug, Clone, PartialEq)]
pub enum Tail {
    /// the byte string ends exactly at a frame boundary
    Clean,
    /// the last frame is cut: its header started at `at`; `in_payload` tells whether the header was complete
    Cut { at: usize, ty: Option<u64>, in_payload: bool, have: usize, want: Option<u64> },
}

/// Segment a byte string into frames (RFC 9114 §7.1). No interpretation of payloads.
pub fn segment(buf: &[u8]) -> (Vec<RawFrame>, Tail) {
    let mut out = vec![];
    let mut off = 0usize;
    while off < buf.len() {
        let Some((ty, n1)) = varint::decode(&buf[off..]) else {
            return (out, Tail::Cut { at: off, ty: None, in_payload: false, have: 0, want: None });
        };
        let Some((len, n2)) = varint::decode(&buf[off + n1..]) else {
            return (out, Tail::Cut { at: off, ty: Some(ty), in_payload: false, have: 0, want: None });
        };
        let ps = off + n1 + n2;
        let avail = buf.len() - ps;
        if (avail as u64) < len {
            return (out, Tail::Cut { at: off, ty: Some(ty), in_payload: true, have: avail, want: Some(len) });
        }
        let end = ps + len as usize;
        out.push(RawFrame { ty, start: off, payload_start: ps, end, payload: buf[ps..end].to_vec() });
        off = end;
    }
    (out, Tail::Clean)
}

#[derive(Debug, Clone, PartialEq)]
pub enum Layout {
    Ok,
    /// payload ends before the end of its fixed fields
    TooShort,
    /// payload has bytes after its fixed fields
    TooLong,
    /// SETTINGS-specific: duplicate or HTTP/2-reserved identifier
    SettingsInvalid,
}

/// Check a complete frame's payload against its fixed field list (RFC 9114 §7.2.x).
pub fn layout(ty: u64, p: &[u8]) -> Layout {
    match ty {
        CANCEL_PUSH | GOAWAY | MAX_PUSH_ID => match varint::decode(p) {
            None => Layout::TooShort,
            Some((_, n)) if n < p.len() => Layout::TooLong,
            Some(_) => Layout::Ok,
        },
        PUSH_PROMISE => match varint::decode(p) {
            None => Layout::TooShort,
            Some(_) => Layout::Ok,
        },
        SETTINGS => match parse_settings(p) {
            Ok(_) => Layout::Ok,
            Err(SettingsErr::Truncated) => Layout::TooShort,
            Err(_) => Layout::SettingsInvalid,
        },
        _ => Layout::Ok,
    }
}

#[derive(Debug, Clone, PartialEq)]
pub enum SettingsErr {
    Truncated,
    DuplicateKnown(u64),
    H2Reserved(u64),
}
pub fn is_known_setting(id: u64) -> bool {
    matches!(id, SET_QPACK_MAX_TABLE | SET_MAX_FIELD_SECTION | SET_QPACK_BLOCKED | SET_CONNECT_PROTOCOL | SET_H3_DATAGRAM | SET_ENABLE_WT | SET_WT_MAX_SESSIONS)
}
/// RFC 9114 §7.2.4: list of (identifier, value). Duplicates of *any* identifier are listed in `dups`
/// (rejecting an unknown duplicate is optional, so the caller decides).
pub fn parse_settings(p: &[u8]) -> Result<Vec<(u64, u64)>, SettingsErr> {
    let mut out: Vec<(u64, u64)> = vec![];
    let mut off = 0;
    while off < p.len() {
        let (id, n1) = varint::decode(&p[off..]).ok_or(SettingsErr::Truncated)?;
        let (val, n2) = varint::decode(&p[off + n1..]).ok_or(SettingsErr::Truncated)?;
        off += n1 + n2;
        if SET_H2_RESERVED.contains(&id) {
            return Err(SettingsErr::H2Reserved(id));
        }
        if is_known_setting(id) && out.iter().any(|(k, _)| *k == id) {
            return Err(SettingsErr::DuplicateKnown(id));
        }
        out.push((id, val));
    }
    Ok(out)
}

#[cfg(test)]
mod tests {
    use super::*;
    #[test]
    fn segmentation() {
        let mut b = frame(HEADERS, b"abc");
        b.extend(frame(0x21, b""));
        b.extend(frame(DATA, b"xy"));
        let (f, t) = segment(&b);
        assert_eq!(t, Tail::Clean);
        assert_eq!(f.len(), 3);
        assert_eq!(f[2].payload, b"xy");
        let (f, t) = segment(&b[..b.len() - 1]);
        assert_eq!(f.len(), 2);
        assert!(matches!(t, Tail::Cut { in_payload: true, have: 1, want: Some(2), .. }));
        assert!(is_reserved(0x21) && is_reserved(0x40) && !is_reserved(0x41) && !is_reserved(0x20));
        assert_eq!(layout(GOAWAY, &[0x04]), Layout::Ok);
        assert_eq!(layout(GOAWAY, &[0x04, 0x00]), Layout::TooLong);
        assert_eq!(layout(GOAWAY, &[0xc0, 0x04]), Layout::TooShort);
        assert_eq!(layout(GOAWAY, &[]), Layout::TooShort);
        assert_eq!(layout(SETTINGS, &[0x06, 0x40]), Layout::TooShort);
        assert_eq!(layout(SETTINGS, &[0x06, 0x01, 0x06, 0x02]), Layout::SettingsInvalid);
        assert_eq!(layout(SETTINGS, &[0x02, 0x01]), Layout::SettingsInvalid);
        assert_eq!(layout(SETTINGS, &[0x21, 0x01, 0x21, 0x02]), Layout::Ok);
    }
}

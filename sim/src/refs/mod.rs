//! Reference models (trusted base): small executable references written from the RFC text,
//! independent of h3's code.
pub mod frames;
pub mod qpack;
pub mod qpack_dyn;
pub mod varint;

//! C17 — the Quinn adapter moves bytes, identifiers and errors faithfully.
//! Engine E3: two real Quinn endpoints on a virtual clock and an in-memory UDP network with
//! packet loss, duplication, reordering and delay. One side is wrapped in h3_quinn::Connection and
//! driven through the h3::quic traits exactly as h3 drives them; the other side is raw Quinn.
use super::peer::read_all;
use crate::choice::{chance, draw, draw_usize, pick};
use crate::e3::{self, Stop};
use crate::obs;
use crate::refs::frames;
use crate::refs::varint;
use crate::runner::{Check, Meta, RunCtx, RunOut, Violation};
use bytes::Bytes;
use h3::proto::frame::Frame;
use h3::quic::{self, BidiStream as _, ConnectionErrorIncoming, RecvStream as _, SendStream as _, StreamErrorIncoming};
use serde_json::json;
use std::cell::RefCell;
use std::future::poll_fn;
use std::rc::Rc;
use std::time::Duration;

pub struct C17;

#[derive(Default, Debug, Clone)]
struct Rec {
    errors: Vec<String>,
    peer_read: Option<Vec<u8>>,
    adapter_read: Option<Vec<u8>>,
    ids: Vec<(String, u64)>,
    overlap: Vec<String>,
    outcome: Vec<(String, String)>,
    done: Vec<String>,
}

fn serr(e: &StreamErrorIncoming) -> String {
    match e {
        StreamErrorIncoming::ConnectionErrorIncoming { connection_error } => format!("Connection({})", cerr(connection_error)),
        StreamErrorIncoming::StreamTerminated { error_code } => format!("StreamTerminated({error_code})"),
        StreamErrorIncoming::Unknown(e) => format!("Unknown({e})"),
    }
}
fn cerr(e: &ConnectionErrorIncoming) -> String {
    match e {
        ConnectionErrorIncoming::ApplicationClose { error_code } => format!("ApplicationClose({error_code})"),
        ConnectionErrorIncoming::Timeout => "Timeout".into(),
        ConnectionErrorIncoming::InternalError(m) => format!("InternalError({m})"),
        ConnectionErrorIncoming::Undefined(e) => format!("Undefined({e})"),
    }
}
fn pattern(n: usize, seed: usize) -> Vec<u8> {
    (0..n).map(|i| ((i * 131 + seed * 7 + (i >> 8)) % 251) as u8).collect()
}

type AConn = h3_quinn::Connection;
async fn open_bidi(a: &mut AConn) -> Result<h3_quinn::BidiStream<Bytes>, StreamErrorIncoming> {
    poll_fn(|cx| <AConn as quic::OpenStreams<Bytes>>::poll_open_bidi(a, cx)).await
}

struct Params {
    stream_window: u32,
    conn_window: u32,
    send_window: u64,
    idle_ms: Option<u32>,
}

fn one_run(ctx: &RunCtx) -> RunOut {
    e3::install();
    let mut out = one_run_inner(ctx);
    e3::uninstall();
    // a handshake that does not survive the drawn packet loss says nothing about the adapter
    if let Some(v) = &out.violation {
        if v.detail.contains("handshake: timed out") || v.detail.contains("handshake: ") {
            obs::count("probe.handshake_lost_to_packet_loss");
            out = RunOut::ok(false);
        }
    }
    out
}

fn one_run_inner(ctx: &RunCtx) -> RunOut {
    let mode = match draw(8) {
        0 | 1 | 2 => 0u8, // bytes + identifiers
        3 | 4 => 1,       // injected conditions
        5 => 2,           // full h3 stack
        6 => 3,           // datagrams through the adapter
        _ => 0,
    };
    // RFC 9114 6.2 lets h3 count on 1024 bytes of credit on its unidirectional streams: the full stack (and
    // nothing else) needs windows of at least that size
    let sw = if mode == 2 { *pick(&[65536u32, 1024, 1500, 1 << 20]) } else { *pick(&[65536u32, 1, 16, 48, 200, 1000, 1 << 20]) };
    let p = Params { stream_window: sw, conn_window: if mode == 1 { 1 << 24 } else { sw.max(*pick(&[4000u32, 100, 1 << 20])) }, send_window: if mode == 1 { 1u64 << 20 } else { *pick(&[1u64 << 20, 64, 1000]) }, idle_ms: None };
    // (mode 1 keeps Quinn's send window large: with a send window exhausted at the same moment as the stream's
    //  flow-control credit, quinn-proto 0.11.17 never wakes a writer whose stream was stopped - Streams::poll()
    //  drops the Writable event because max_data == offset, and write() looks at the connection-level limit
    //  before stop_reason - so the STOP_SENDING only surfaces as the idle timeout; that is Quinn's, not the adapter's)
    let lossy = draw(3) != 0 && !(mode == 1 && false);
    let faults = if lossy { e3::NetFaults { drop: draw(200), dup: draw(100), reorder: draw(100), max_delay_us: *pick(&[2000u32, 200, 20000]), partition: false } } else { e3::NetFaults::default() };
    e3::with(|c| c.faults = faults.clone());
    let rec: Rc<RefCell<Rec>> = Default::default();
    let fault_kind = draw(4); // mode 1: 0 stop, 1 reset, 2 close, 3 idle timeout via partition
    let code: u64 = *pick(&[0x10cu64, 0, 0x100, 0x3fff_ffff, (1 << 62) - 1, 77]);
    let idle = if mode == 1 && fault_kind == 3 { Some(10_000u32) } else { None };
    let tune = |tc: &mut quinn::TransportConfig, p: &Params| {
        tc.stream_receive_window(quinn::VarInt::from_u32(p.stream_window));
        tc.receive_window(quinn::VarInt::from_u32(p.conn_window));
        tc.send_window(p.send_window);
        if let Some(ms) = idle {
            tc.max_idle_timeout(Some(quinn::IdleTimeout::from(quinn::VarInt::from_u32(ms))));
        } else {
            tc.max_idle_timeout(Some(quinn::IdleTimeout::from(quinn::VarInt::from_u32(60_000))));
        }
        let _ = p.idle_ms;
    };
    let pair = e3::endpoints(|tc| tune(tc, &p), |tc| tune(tc, &p));
    let nframes = 1 + draw_usize(4);
    let sizes: Vec<usize> = (0..nframes)
        .map(|_| {
            let w = sw as usize;
            // a frame costs about one round trip per window: keep runs within a few thousand round trips
            let cap = (w * 300).clamp(64, 262_144);
            (*pick(&[100usize, 0, 1, w.min(300_000), (w + 1).min(300_000), w.saturating_sub(1).min(300_000), 5000, 70_000, 262_144, 2 * w.min(100_000)])).min(cap)
        })
        .collect();
    let peer_bytes = pattern((*pick(&[0usize, 1, 10, 3000, 100_000])).min((sw as usize * 300).clamp(64, 100_000)), 3);
    let try_overlap = chance(1, 2);
    // one run in three (scenario a): after the frames a blob is written through the unframed path
    // (SendStreamUnframed::poll_send), the way h3's AsyncWrite does: a fresh view of the unsent rest at every poll
    let unframed_len: usize = if mode == 0 && draw(3) == 2 { (*pick(&[1usize, 1000, 5000, 70_000]) + draw_usize(3) * (sw as usize).min(70_000)).min(sw as usize * 300) } else { 0 };
    let (server, client) = (pair.server, pair.client);

    match mode {
        0 | 1 => {
            // ---- adapter side (server)
            {
                let rec = rec.clone();
                let sizes = sizes.clone();
                e3::spawn("adapter", async move {
                    let push_err = |r: &Rc<RefCell<Rec>>, s: String| r.borrow_mut().errors.push(s);
                    let Some(inc) = server.accept().await else { return push_err(&rec, "accept: endpoint closed".into()) };
                    let conn = match inc.await {
                        Ok(c) => c,
                        Err(e) => return push_err(&rec, format!("server handshake: {e}")),
                    };
                    let mut a = h3_quinn::Connection::new(conn);
                    let bi = match open_bidi(&mut a).await {
                        Ok(b) => b,
                        Err(e) => return push_err(&rec, format!("open_bidi: {}", serr(&e))),
                    };
                    let (mut tx, mut rx) = bi.split();
                    // identifiers asked in every state; they must never change and asking must never panic
                    let id_of = |what: &str, r: &Rc<RefCell<Rec>>, v: Result<u64, String>| match v {
                        Ok(id) => r.borrow_mut().ids.push((what.to_string(), id)),
                        Err(p) => r.borrow_mut().errors.push(format!("PANIC {what}: {p}")),
                    };
                    macro_rules! ask {
                        ($what:expr, $e:expr) => {{
                            let r = std::panic::catch_unwind(std::panic::AssertUnwindSafe(|| $e.into_inner()));
                            id_of($what, &rec, r.map_err(|_| crate::exec::take_last_panic().map(|(m, l)| format!("{m} at {l}")).unwrap_or_default()));
                        }};
                    }
                    ask!("send_id.fresh", tx.send_id());
                    ask!("recv_id.fresh", rx.recv_id());
                    // a read that pends (nothing has been sent to us yet), then the identifier again
                    let pending = {
                        let w = futures_util::task::noop_waker();
                        let mut cx = std::task::Context::from_waker(&w);
                        rx.poll_data(&mut cx).is_pending()
                    };
                    if pending {
                        obs::count("probe.id_query_while_read_pending");
                        ask!("recv_id.read_pending", rx.recv_id());
                    }
                    if rec.borrow().errors.iter().any(|e| e.starts_with("PANIC")) {
                        return;
                    }
                    // writer
                    let rec_w = rec.clone();
                    let write_task = async move {
                        for (i, n) in sizes.iter().enumerate() {
                            let payload = Bytes::from(pattern(*n, i));
                            if let Err(e) = tx.send_data(Frame::Data(payload)) {
                                rec_w.borrow_mut().outcome.push(("send_data".into(), serr(&e)));
                                return tx;
                            }
                            if try_overlap && i == 0 {
                                // a new write while the previous one is unfinished must be refused, not interleaved
                                let r = tx.send_data(Frame::Data(Bytes::from_static(b"INTERLEAVED")));
                                rec_w.borrow_mut().overlap.push(match &r {
                                    Ok(()) => "accepted".into(),
                                    Err(e) => serr(e),
                                });
                            }
                            let r = std::panic::catch_unwind(std::panic::AssertUnwindSafe(|| tx.send_id().into_inner()));
                            if let Ok(id) = r {
                                rec_w.borrow_mut().ids.push(("send_id.write_in_flight".into(), id));
                            }
                            if let Err(e) = poll_fn(|cx| tx.poll_ready(cx)).await {
                                rec_w.borrow_mut().outcome.push(("poll_ready".into(), serr(&e)));
                                // a later call on the same stream must not turn into a connection-level error
                                let r2 = tx.send_data(Frame::Data(Bytes::from_static(b"after-error")));
                                let r2 = match r2 {
                                    Ok(()) => poll_fn(|cx| tx.poll_ready(cx)).await,
                                    Err(e) => Err(e),
                                };
                                rec_w.borrow_mut().outcome.push(("write_after_error".into(), r2.err().map(|e| serr(&e)).unwrap_or("ok".into())));
                                return tx;
                            }
                        }
                        if unframed_len > 0 {
                            obs::count("probe.unframed_write");
                            let blob = pattern(unframed_len, 99);
                            let mut sent = 0usize;
                            while sent < blob.len() {
                                let rw = rec_w.clone();
                                let r = poll_fn(|cx| {
                                    let mut view: &[u8] = &blob[sent..];
                                    let before = view.len();
                                    let p = quic::SendStreamUnframed::poll_send(&mut tx, cx, &mut view);
                                    match &p {
                                        std::task::Poll::Pending if view.len() != before => rw.borrow_mut().errors.push(format!("CONTRACT poll_send returned Pending but took {} bytes out of the buffer", before - view.len())),
                                        std::task::Poll::Ready(Ok(n)) if view.len() != before - n => rw.borrow_mut().errors.push(format!("CONTRACT poll_send reported {n} bytes but advanced the buffer by {}", before - view.len())),
                                        _ => {}
                                    }
                                    p
                                })
                                .await;
                                match r {
                                    Ok(n) => sent += n,
                                    Err(e) => {
                                        rec_w.borrow_mut().outcome.push(("poll_send".into(), serr(&e)));
                                        return tx;
                                    }
                                }
                            }
                        }
                        if let Err(e) = poll_fn(|cx| tx.poll_finish(cx)).await {
                            rec_w.borrow_mut().outcome.push(("poll_finish".into(), serr(&e)));
                        }
                        rec_w.borrow_mut().done.push("writer".into());
                        tx
                    };
                    let rec_r = rec.clone();
                    let read_task = async move {
                        let mut got = vec![];
                        loop {
                            match poll_fn(|cx| rx.poll_data(cx)).await {
                                Ok(Some(b)) => {
                                    got.extend_from_slice(&b);
                                    if got.len() == b.len() {
                                        let r = std::panic::catch_unwind(std::panic::AssertUnwindSafe(|| rx.recv_id().into_inner()));
                                        match r {
                                            Ok(id) => rec_r.borrow_mut().ids.push(("recv_id.after_first_chunk".into(), id)),
                                            Err(_) => rec_r.borrow_mut().errors.push("PANIC recv_id.after_first_chunk".into()),
                                        }
                                    }
                                }
                                Ok(None) => {
                                    rec_r.borrow_mut().adapter_read = Some(got);
                                    rec_r.borrow_mut().done.push("reader".into());
                                    return rx;
                                }
                                Err(e) => {
                                    rec_r.borrow_mut().outcome.push(("poll_data".into(), serr(&e)));
                                    rec_r.borrow_mut().adapter_read = Some(got);
                                    // a second read of the same stream (h3's recv_trailers after a failed recv_data) must be
                                    // answered - the condition again, or end of stream - never with data, never by a panic
                                    let again = poll_fn(|cx| std::task::Poll::Ready(rx.poll_data(cx))).await;
                                    rec_r.borrow_mut().outcome.push((
                                        "poll_data.again".into(),
                                        match again {
                                            std::task::Poll::Pending => "pending".into(),
                                            std::task::Poll::Ready(Ok(Some(b))) => format!("DATA {} bytes", b.len()),
                                            std::task::Poll::Ready(Ok(None)) => "end".into(),
                                            std::task::Poll::Ready(Err(e2)) => serr(&e2),
                                        },
                                    ));
                                    return rx;
                                }
                            }
                        }
                    };
                    let (tx, rx) = futures_util::future::join(write_task, read_task).await;
                    let r = std::panic::catch_unwind(std::panic::AssertUnwindSafe(|| (tx.send_id().into_inner(), rx.recv_id().into_inner())));
                    if let Ok((s, r)) = r {
                        rec.borrow_mut().ids.push(("send_id.end".into(), s));
                        rec.borrow_mut().ids.push(("recv_id.end".into(), r));
                    } else {
                        rec.borrow_mut().errors.push("PANIC id query at the end".into());
                    }
                    // keep everything alive until the run is over
                    std::future::pending::<()>().await;
                    drop((a, tx, rx));
                });
            }
            // ---- raw Quinn peer (client)
            {
                let rec = rec.clone();
                let peer_bytes = peer_bytes.clone();
                let total: usize = sizes.iter().map(|n| frames::frame(frames::DATA, &vec![0; *n]).len()).sum();
                e3::spawn("peer", async move {
                    let conn = match client.connect(e3::SERVER_ADDR.parse().unwrap(), "localhost").unwrap().await {
                        Ok(c) => c,
                        Err(e) => return rec.borrow_mut().errors.push(format!("client handshake: {e}")),
                    };
                    let (mut s, mut r) = match conn.accept_bi().await {
                        Ok(x) => x,
                        Err(e) => return rec.borrow_mut().errors.push(format!("peer accept_bi: {e} ({e:?})")),
                    };
                    if mode == 1 {
                        // injected condition at a drawn point of the transfer
                        let after = draw_usize(total.max(1));
                        let mut got = vec![];
                        while got.len() < after {
                            match r.read_chunk(usize::MAX, true).await {
                                Ok(Some(c)) => got.extend_from_slice(&c.bytes),
                                _ => break,
                            }
                        }
                        let _ = s.write_all(&peer_bytes[..peer_bytes.len() / 2]).await;
                        match fault_kind {
                            0 => {
                                let _ = r.stop(quinn::VarInt::from_u64(code).unwrap());
                                obs::count("fault.peer_stop");
                            }
                            1 => {
                                let _ = s.reset(quinn::VarInt::from_u64(code).unwrap());
                                obs::count("fault.peer_reset");
                            }
                            2 => {
                                conn.close(quinn::VarInt::from_u64(code).unwrap(), b"bye");
                                obs::count("fault.peer_close");
                            }
                            _ => {
                                e3::with(|c| c.faults.partition = true);
                                obs::count("fault.partition_until_idle_timeout");
                            }
                        }
                        rec.borrow_mut().peer_read = Some(got);
                        std::future::pending::<()>().await;
                        drop((conn, s, r));
                        return;
                    }
                    let rec_a = rec.clone();
                    let reader = async move {
                        match r.read_to_end(4_000_000).await {
                            Ok(v) => rec_a.borrow_mut().peer_read = Some(v),
                            Err(e) => rec_a.borrow_mut().errors.push(format!("peer read_to_end: {e} ({e:?})")),
                        }
                    };
                    let rec_b = rec.clone();
                    let writer = async move {
                        let mut off = 0;
                        while off < peer_bytes.len() {
                            let k = (peer_bytes.len() - off).min(1 + draw_usize(5000));
                            if let Err(e) = s.write_all(&peer_bytes[off..off + k]).await {
                                rec_b.borrow_mut().errors.push(format!("peer write: {e} ({e:?})"));
                                return;
                            }
                            off += k;
                        }
                        let _ = s.finish();
                        // keep the stream handle: dropping it early is not part of the scenario
                        std::future::pending::<()>().await;
                        drop(s);
                    };
                    futures_util::future::join(reader, writer).await;
                    drop(conn);
                });
            }
        }
        2 => {
            // ---- full stack: real h3 client and server on two adapters
            let req_body = pattern(*pick(&[300usize, 0, 1, 20_000, 70_000]), 1);
            let resp_body = pattern(*pick(&[500usize, 0, 64, 50_000]), 2);
            {
                let rec = rec.clone();
                let resp_body = resp_body.clone();
                e3::spawn("h3-server", async move {
                    let Some(inc) = server.accept().await else { return };
                    let conn = match inc.await {
                        Ok(c) => c,
                        Err(e) => return rec.borrow_mut().errors.push(format!("server handshake: {e}")),
                    };
                    let mut h = match h3::server::Connection::<_, Bytes>::new(h3_quinn::Connection::new(conn)).await {
                        Ok(h) => h,
                        Err(e) => return rec.borrow_mut().errors.push(format!("h3 server setup: {e}")),
                    };
                    loop {
                        match h.accept().await {
                            Ok(Some(r)) => {
                                let (_req, mut s) = match r.resolve_request().await {
                                    Ok(x) => x,
                                    Err(e) => return rec.borrow_mut().errors.push(format!("resolve: {e}")),
                                };
                                let mut body = vec![];
                                loop {
                                    match s.recv_data().await {
                                        Ok(Some(d)) => body.extend(read_all(d)),
                                        Ok(None) => break,
                                        Err(e) => return rec.borrow_mut().errors.push(format!("server recv_data: {e}")),
                                    }
                                }
                                rec.borrow_mut().adapter_read = Some(body);
                                let r = async {
                                    s.send_response(http::Response::new(())).await?;
                                    let mut off = 0;
                                    while off < resp_body.len() {
                                        let k = (resp_body.len() - off).min(16384);
                                        s.send_data(Bytes::copy_from_slice(&resp_body[off..off + k])).await?;
                                        off += k;
                                    }
                                    s.finish().await
                                }
                                .await;
                                if let Err(e) = r {
                                    rec.borrow_mut().errors.push(format!("server send: {e}"));
                                }
                            }
                            Ok(None) => break,
                            Err(e) => {
                                // once the exchange is over, how the connection ends (a lost CONNECTION_CLOSE turns into
                                // an idle timeout) is not this scenario's subject
                                if !e.is_h3_no_error() && rec.borrow().adapter_read.is_none() {
                                    rec.borrow_mut().errors.push(format!("accept: {e}"));
                                }
                                break;
                            }
                        }
                    }
                    rec.borrow_mut().done.push("server".into());
                });
            }
            {
                let rec = rec.clone();
                let req_body = req_body.clone();
                e3::spawn("h3-client", async move {
                    let conn = match client.connect(e3::SERVER_ADDR.parse().unwrap(), "localhost").unwrap().await {
                        Ok(c) => c,
                        Err(e) => return rec.borrow_mut().errors.push(format!("client handshake: {e}")),
                    };
                    let (mut driver, mut sr) = match h3::client::new(h3_quinn::Connection::new(conn)).await {
                        Ok(x) => x,
                        Err(e) => return rec.borrow_mut().errors.push(format!("h3 client setup: {e}")),
                    };
                    let rec_d = rec.clone();
                    e3::spawn("h3-client-driver", async move {
                        let e = poll_fn(|cx| driver.poll_close(cx)).await;
                        if !e.is_h3_no_error() {
                            rec_d.borrow_mut().errors.push(format!("client driver: {e}"));
                        }
                        rec_d.borrow_mut().done.push("driver".into());
                    });
                    let r = async {
                        let mut s = sr.send_request(http::Request::post("https://localhost/x").body(()).unwrap()).await?;
                        let mut off = 0;
                        while off < req_body.len() {
                            let k = (req_body.len() - off).min(10_000);
                            s.send_data(Bytes::copy_from_slice(&req_body[off..off + k])).await?;
                            off += k;
                        }
                        s.finish().await?;
                        let _resp = s.recv_response().await?;
                        let mut body = vec![];
                        while let Some(d) = s.recv_data().await? {
                            body.extend(read_all(d));
                        }
                        Ok::<_, h3::error::StreamError>(body)
                    }
                    .await;
                    match r {
                        Ok(b) => rec.borrow_mut().peer_read = Some(b),
                        Err(e) => rec.borrow_mut().errors.push(format!("client: {e}")),
                    }
                    drop(sr);
                    rec.borrow_mut().done.push("client".into());
                });
            }
            let stop = {
                let rec = rec.clone();
                e3::run_until(move || rec.borrow().done.len() >= 3 || !rec.borrow().errors.is_empty(), 400_000, Duration::from_secs(300))
            };
            return finish_full_stack(ctx, stop, &rec, &req_body, &resp_body, lossy);
        }
        _ => {
            // ---- datagrams through the adapter
            use h3_datagram::datagram::Datagram;
            use h3_datagram::quic_traits::{DatagramConnectionExt, SendDatagram};
            let plan: Vec<(u64, Vec<u8>)> = (0..1 + draw_usize(3)).map(|i| (4 * *pick(&[0u64, 1, 63, 64, 16384, (1 << 60) - 1]), pattern(*pick(&[0usize, 1, 100, 1000]), i))).collect();
            let chained = draw(2) == 1;
            {
                let rec = rec.clone();
                let plan = plan.clone();
                e3::spawn("adapter", async move {
                    let Some(inc) = server.accept().await else { return };
                    let conn = match inc.await {
                        Ok(c) => c,
                        Err(e) => return rec.borrow_mut().errors.push(format!("server handshake: {e}")),
                    };
                    let a = h3_quinn::Connection::new(conn);
                    if chained {
                        // a payload that is not one contiguous chunk (both parts non-empty when it has 2+ bytes)
                        type CB = bytes::buf::Chain<Bytes, Bytes>;
                        let mut sender = <AConn as DatagramConnectionExt<CB>>::send_datagram_handler(&a);
                        for (id, p) in &plan {
                            let cut = if p.len() >= 2 { 1 + draw_usize(p.len() - 1) } else { p.len() };
                            let payload: CB = bytes::Buf::chain(Bytes::copy_from_slice(&p[..cut]), Bytes::copy_from_slice(&p[cut..]));
                            let d = Datagram::new(quic::StreamId::try_from(*id).unwrap(), payload);
                            if let Err(e) = <_ as SendDatagram<CB>>::send_datagram(&mut sender, d.encode()) {
                                rec.borrow_mut().errors.push(format!("send_datagram: {e:?}"));
                            }
                        }
                        obs::count("probe.datagram_payload_in_two_chunks");
                    } else {
                        let mut sender = <AConn as DatagramConnectionExt<Bytes>>::send_datagram_handler(&a);
                        for (id, p) in &plan {
                            let d = Datagram::new(quic::StreamId::try_from(*id).unwrap(), Bytes::from(p.clone()));
                            if let Err(e) = <_ as SendDatagram<Bytes>>::send_datagram(&mut sender, d.encode()) {
                                rec.borrow_mut().errors.push(format!("send_datagram: {e:?}"));
                            }
                        }
                    }
                    rec.borrow_mut().done.push("sender".into());
                    std::future::pending::<()>().await;
                    drop(a);
                });
            }
            {
                let rec = rec.clone();
                e3::spawn("peer", async move {
                    let conn = match client.connect(e3::SERVER_ADDR.parse().unwrap(), "localhost").unwrap().await {
                        Ok(c) => c,
                        Err(e) => return rec.borrow_mut().errors.push(format!("client handshake: {e}")),
                    };
                    loop {
                        match conn.read_datagram().await {
                            Ok(b) => rec.borrow_mut().outcome.push(("datagram".into(), b.iter().map(|x| format!("{x:02x}")).collect::<String>())),
                            Err(_) => return,
                        }
                    }
                });
            }
            let stop = e3::run_until(|| false, 200_000, Duration::from_secs(5));
            if let Some(v) = panic_violation() {
                return v;
            }
            let r = rec.borrow();
            if let Some(e) = r.errors.first() {
                return fail("C17.datagram_send_failed", format!("{e}; all {:?}", r.errors), "datagram");
            }
            let expected: Vec<String> = plan.iter().map(|(id, p)| [varint::encode(id / 4), p.clone()].concat().iter().map(|x| format!("{x:02x}")).collect::<String>()).collect();
            for (_, got) in &r.outcome {
                if !expected.contains(got) {
                    return fail("C17.datagram_bytes_wrong", format!("peer received datagram {} which is not varint(S/4)||P of any datagram sent ({:?})", &got[..got.len().min(40)], plan.iter().map(|(i, p)| (*i, p.len())).collect::<Vec<_>>()), "datagram");
                }
            }
            // (datagrams are unreliable by contract: Quinn itself was seen to drop one on a loss-free simulated network;
            //  arrival is counted, not demanded)
            obs::count_n("probe.datagrams_sent", plan.len() as u64);
            obs::count_n("probe.datagrams_arrived", r.outcome.len() as u64);
            let _ = stop;
            let mut out = RunOut::ok(true);
            if ctx.want_sample {
                out.sample = Some(json!({"mode": "datagrams", "sent": plan.iter().map(|(i, p)| json!({"stream": i, "len": p.len()})).collect::<Vec<_>>(), "arrived": r.outcome.len(), "virtual_seconds": e3::now().as_secs_f64()}));
            }
            obs::count_n("sim.virtual_ms", e3::now().as_millis() as u64);
            return out;
        }
    }
    // ---- modes 0 and 1: run until the scenario's work is done (or a cap), then judge
    let stop = {
        let rec = rec.clone();
        e3::run_until(
            move || {
                let r = rec.borrow();
                if r.errors.iter().any(|e| e.starts_with("PANIC")) {
                    return true;
                }
                if mode == 0 {
                    (r.peer_read.is_some() && r.adapter_read.is_some() && r.done.iter().any(|d| d == "writer")) || !r.errors.is_empty() || !r.outcome.is_empty()
                } else {
                    match fault_kind {
                        0 => r.outcome.iter().any(|(w, _)| w == "write_after_error") || r.done.iter().any(|d| d == "writer"),
                        1 => r.outcome.iter().any(|(w, _)| w == "poll_data"),
                        _ => r.outcome.iter().any(|(w, _)| w == "poll_data") && (r.outcome.iter().any(|(w, _)| w != "poll_data" && w != "poll_data.again") || r.done.iter().any(|d| d == "writer")),
                    }
                }
            },
            600_000,
            Duration::from_secs(3600),
        )
    };
    if let Some(v) = panic_violation() {
        return v;
    }
    let r = rec.borrow().clone();
    let what = if mode == 0 { "bytes_and_ids" } else { "injected_condition" };
    obs::note(|| format!("mode {mode} window {sw} sizes {:?} faults {:?} fault_kind {fault_kind} code {code} stop {:?} rec {:?}", sizes, faults, stop, Rec { peer_read: r.peer_read.as_ref().map(|v| vec![v.len() as u8]), adapter_read: None, ..r.clone() }));
    if let Some(e) = r.errors.iter().find(|e| e.starts_with("PANIC")) {
        return RunOut::fail(Violation::new("C17.panic", format!("asking the adapter for a stream identifier panicked: {e}; ids so far {:?}", r.ids)).fact("call", e.split(':').next().unwrap_or("").trim_start_matches("PANIC ")));
    }
    // Under injected packet loss QUIC's own loss recovery can legitimately run into the idle timeout (PTO
    // back-off built up during a lossy handshake, probes lost again): the connection then ends with Timeout
    // whatever the adapter does. Such a run is inconclusive, not a violation; loss-free runs keep the rule.
    if lossy && !(mode == 1 && fault_kind == 3) && (r.errors.iter().any(|e| e.contains("Timeout") || e.contains("TimedOut")) || r.outcome.iter().any(|(_, o)| o.contains("Timeout"))) {
        obs::count("probe.run_ended_by_idle_timeout_under_packet_loss");
        return RunOut::ok(false);
    }
    if stop != Stop::Done {
        return fail("C17.did_not_finish", format!("the scenario did not finish ({stop:?}) within 400000 steps / virtual {:?}; record {:?}; pending {:?}; polls {} timer fires {} packets {}", e3::now(), Rec { peer_read: None, adapter_read: None, ..r.clone() }, e3::pending_tasks(), e3::with(|c| c.polls), e3::with(|c| c.timer_fires), e3::with(|c| c.packets_sent)), what);
    }
    // identifiers: constant for the life of the stream
    let sid: Vec<u64> = r.ids.iter().filter(|(w, _)| w.starts_with("send_id")).map(|(_, i)| *i).collect();
    let rid: Vec<u64> = r.ids.iter().filter(|(w, _)| w.starts_with("recv_id")).map(|(_, i)| *i).collect();
    if sid.windows(2).any(|w| w[0] != w[1]) || rid.windows(2).any(|w| w[0] != w[1]) || (sid.first().is_some() && rid.first().is_some() && sid[0] != rid[0]) || sid.first().map(|i| *i != 1).unwrap_or(false) {
        return fail("C17.identifier_changed", format!("identifiers reported {:?} (first server-initiated bidirectional stream is 1)", r.ids), what);
    }
    if let Some((_, o)) = r.outcome.iter().find(|(w, o)| w == "poll_data.again" && o.starts_with("DATA")) {
        return fail("C17.read_after_error_returned_data", format!("after a read of the stream had failed, the next read returned {o}; outcome {:?}", r.outcome), what);
    }
    if let Some(o) = r.overlap.first() {
        if o == "accepted" {
            return fail("C17.overlapping_write_accepted", "a second send_data was accepted while the first buffer was unfinished".into(), what);
        }
    }
    if mode == 0 {
        if let Some(e) = r.errors.iter().find(|e| e.starts_with("CONTRACT")) {
            return fail("C17.unframed_write_contract", e.clone(), what);
        }
        if let Some(e) = r.errors.first() {
            return fail("C17.transfer_failed", format!("{e}; all {:?}; outcome {:?}", r.errors, r.outcome), what);
        }
        if let Some(o) = r.outcome.first() {
            return fail("C17.transfer_failed", format!("adapter call {} failed with {}", o.0, o.1), what);
        }
        let mut expect = vec![];
        for (i, n) in sizes.iter().enumerate() {
            expect.extend(frames::frame(frames::DATA, &pattern(*n, i)));
        }
        if unframed_len > 0 {
            expect.extend(pattern(unframed_len, 99));
        }
        match &r.peer_read {
            None => return fail("C17.bytes_never_arrived", format!("the raw peer never saw the end of the stream; virtual time {:?}, pending {:?}", e3::now(), e3::pending_tasks()), what),
            Some(got) if *got != expect => {
                let first = got.iter().zip(expect.iter()).position(|(a, b)| a != b).unwrap_or(got.len().min(expect.len()));
                return fail("C17.bytes_differ", format!("raw peer read {} bytes, the adapter was handed {} bytes (frames {:?}); first difference at offset {first}", got.len(), expect.len(), sizes), what);
            }
            _ => {}
        }
        match &r.adapter_read {
            Some(got) if *got == peer_bytes => {}
            other => return fail("C17.read_bytes_differ", format!("adapter read {:?} bytes, the raw peer wrote {}", other.as_ref().map(|v| v.len()), peer_bytes.len()), what),
        }
    } else {
        // the injected condition surfaces as the right class with the peer's code
        let get = |k: &str| r.outcome.iter().find(|(w, _)| w == k).map(|(_, v)| v.clone());
        match fault_kind {
            0 => {
                // STOP_SENDING: the writer sees StreamTerminated(code) (unless it had finished writing before)
                match get("poll_ready").or(get("poll_finish")).or(get("send_data")) {
                    None => {}
                    Some(o) if o == format!("StreamTerminated({code})") => {}
                    Some(o) => return fail("C17.wrong_error_class", format!("peer stopped the stream with {code}: the write reported {o}"), "stop").map_fact("got", o.split('(').next().unwrap_or("")),
                }
                if let Some(o) = get("write_after_error") {
                    if o.starts_with("Connection(") {
                        return fail("C17.stream_error_escalated_to_connection_error", format!("after the peer's STOP_SENDING({code}) was reported, the next write on the same stream reported the connection-level error {o}"), "stop");
                    }
                }
            }
            1 => match get("poll_data") {
                Some(o) if o == format!("StreamTerminated({code})") => {}
                other => return fail("C17.wrong_error_class", format!("peer reset the stream with {code}: the read reported {:?}", other), "reset").map_fact("got", other.as_deref().unwrap_or("none").split('(').next().unwrap_or("")),
            },
            2 => {
                let outs: Vec<&String> = r.outcome.iter().filter(|(w, _)| w != "write_after_error").map(|(_, v)| v).collect();
                // (a CONNECTION_CLOSE that is lost is not repeated for ever: under packet loss the idle timeout is a legitimate outcome)
                if outs.is_empty() || outs.iter().any(|o| **o != format!("Connection(ApplicationClose({code}))") && !(lossy && (**o == "Connection(Timeout)" || o.contains("reset by peer")))) {
                    return fail("C17.wrong_error_class", format!("peer closed the connection with {code}: adapter calls reported {:?}", r.outcome), "close");
                }
            }
            _ => {
                let outs: Vec<&String> = r.outcome.iter().filter(|(w, _)| w != "write_after_error").map(|(_, v)| v).collect();
                if outs.is_empty() || outs.iter().any(|o| **o != "Connection(Timeout)") {
                    return fail("C17.wrong_error_class", format!("the path went silent until the idle timeout: adapter calls reported {:?}", r.outcome), "timeout");
                }
            }
        }
    }
    obs::count_n("sim.virtual_ms", e3::now().as_millis() as u64);
    obs::count_n("sim.packets", e3::with(|c| c.packets_sent));
    if sizes.iter().any(|n| *n > sw as usize) {
        obs::count("probe.frame_larger_than_stream_window");
    }
    let mut out = RunOut::ok(true);
    if ctx.want_sample {
        out.sample = Some(json!({"mode": what, "stream_receive_window": sw, "frame_payload_sizes": sizes, "network": format!("{faults:?}"), "injected": if mode == 1 { json!({"kind": (["stop", "reset", "close", "idle timeout"])[fault_kind as usize], "code": code}) } else { json!(null) }, "identifiers": r.ids, "adapter_outcomes": r.outcome, "virtual_seconds": e3::now().as_secs_f64(), "packets": e3::with(|c| c.packets_sent)}));
    }
    out
}

fn finish_full_stack(ctx: &RunCtx, stop: Stop, rec: &Rc<RefCell<Rec>>, req_body: &[u8], resp_body: &[u8], lossy: bool) -> RunOut {
    if let Some(v) = panic_violation() {
        return v;
    }
    let r = rec.borrow();
    if lossy && r.errors.iter().any(|e| e.contains("Timeout") || e.contains("TimedOut")) {
        obs::count("probe.run_ended_by_idle_timeout_under_packet_loss");
        return RunOut::ok(false);
    }
    if let Some(e) = r.errors.first() {
        return fail("C17.h3_over_quinn_failed", format!("{e}; all {:?}", r.errors), "full_stack");
    }
    if stop != Stop::Done {
        return fail("C17.did_not_finish", format!("the exchange did not finish ({stop:?}); done {:?}; pending {:?}", r.done, e3::pending_tasks()), "full_stack");
    }
    if r.adapter_read.as_deref() != Some(req_body) || r.peer_read.as_deref() != Some(resp_body) {
        return fail("C17.h3_over_quinn_bytes_differ", format!("request body {:?}/{} bytes, response body {:?}/{} bytes; done {:?}; pending {:?}", r.adapter_read.as_ref().map(|v| v.len()), req_body.len(), r.peer_read.as_ref().map(|v| v.len()), resp_body.len(), r.done, e3::pending_tasks()), "full_stack");
    }
    obs::count_n("sim.virtual_ms", e3::now().as_millis() as u64);
    obs::count_n("sim.packets", e3::with(|c| c.packets_sent));
    obs::count("probe.full_h3_stack_over_quinn");
    let mut out = RunOut::ok(true);
    if ctx.want_sample {
        out.sample = Some(json!({"mode": "full h3 stack over h3-quinn over Quinn", "request_body": req_body.len(), "response_body": resp_body.len(), "lossy_network": lossy, "virtual_seconds": e3::now().as_secs_f64()}));
    }
    out
}

fn panic_violation() -> Option<RunOut> {
    e3::with(|c| c.panic.clone()).map(|(task, msg, loc)| {
        if loc.contains("/verif/sim/src") {
            RunOut { harness_error: Some(format!("harness panic in task {task}: {msg} at {loc}")), ..Default::default() }
        } else {
            RunOut::fail(Violation::new("C17.panic", format!("panic in task {task}: {msg} at {loc}")).fact("at", loc.rsplit('/').next().unwrap_or("")))
        }
    })
}
fn fail(rule: &str, d: String, what: &str) -> RunOut {
    RunOut::fail(Violation::new(rule, d).fact("scenario", what))
}
trait MapFact {
    fn map_fact(self, k: &str, v: &str) -> Self;
}
impl MapFact for RunOut {
    fn map_fact(mut self, k: &str, v: &str) -> Self {
        if let Some(x) = self.violation.take() {
            self.violation = Some(x.fact(k, v));
        }
        self
    }
}

impl Check for C17 {
    fn id(&self) -> &'static str {
        "C17"
    }
    fn meta(&self) -> Meta {
        Meta {
            level: "exploration",
            rule: "per run two real Quinn endpoints complete a real TLS 1.3 handshake on the simulated network; transport parameters drawn (stream receive window 1 B .. 1 MiB, connection window, send window); network faults drawn per run (drop 0-20 %, duplicate 0-10 %, reorder 0-10 %, delay up to 20 ms) or none; scenarios: (a) 1-4 DATA frames with payloads 0 .. 256 KiB at window multiples +-1 written through h3_quinn send_data/poll_ready/poll_finish while the raw peer writes 0..100 KB back, identifier queries before, while a read is pending, with a write in flight, after the first chunk and at the end, a second send_data while the first is unfinished, in one run in three followed by a blob written through the unframed path (SendStreamUnframed::poll_send with a fresh view of the unsent rest at every poll, as h3's AsyncWrite does); (b) peer stop / reset / close with arbitrary codes at a drawn byte offset, or a partition until the idle timeout, with a second read of the stream after the failed one; (c) a full h3 request/response over two adapters; (d) HTTP Datagrams through the Quinn datagram adapter, payloads contiguous or in two chunks; every run non-trivial; distinct = distinct schedule signatures (task/packet event sequences)",
            real: &["quinn 0.11, quinn-proto, rustls (ring), h3-quinn (lib.rs, datagram.rs), h3 stream::WriteBuf and frame encoding, in scenario (c) all of h3"],
            stub: &["UDP sockets, timers, task spawner and clock (engine E3: virtual time, in-memory network, choice-driven)", "the raw Quinn peer's behaviour", "a fixed Ed25519 certificate checked into /verif/sim/certs"],
            assumptions: &["ring's system RNG influences packet contents only, never sizes or timing (runs are re-executed and compared by trace hash; a divergence is a harness error)", "DATA frame headers are compared against the minimal reference encoding"],
            quick_runs: 25_000,
            thorough_runs: 1_000_000,
        }
    }
    fn run(&self, ctx: &RunCtx) -> RunOut {
        one_run(ctx)
    }
}

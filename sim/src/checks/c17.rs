//! C17 — the Quinn adapter moves bytes, identifiers and errors faithfully.
//! Engine E3: two real Quinn endpoints on a virtual clock and an in-memory UDP network with
//! packet loss, duplication, reordering and delay. One side is wrapped in h3_quinn::Connection and
//! driven through the h3::quic traits exactly as h3 drives them; the other side is raw Quinn.
use super::peer::read_all;
use crate::choice::{chance, draw, draw_usize, pick};
use crate::e3::{self, Stop};
use crate::obs;
use crate::refs::frames;
use crate::refs::varint;
use crate::runner::{Check, Meta, RunCtx, RunOut, Violation};
use bytes::Bytes;
use h3::proto::frame::Frame;
use h3::quic::{self, BidiStream as _, ConnectionErrorIncoming, RecvStream as _, SendStream as _, StreamErrorIncoming};
use serde_json::json;
use std::cell::RefCell;
use std::future::poll_fn;
use std::rc::Rc;
use std::time::Duration;

pub struct C17;

#[derive(Default, Debug, Clone)]
struct Rec {
    errors: Vec<String>,
    peer_read: Option<Vec<u8>>,
    adapter_read: Option<Vec<u8>>,
    ids: Vec<(String, u64)>,
    overlap: Vec<String>,
    outcome: Vec<(String, String)>,
    done: Vec<String>,
    /// scenario (e): streams accepted through the adapter: (bidi, identifier when fresh, at the end, bytes read)
    accepted: Vec<(bool, u64, u64, Vec<u8>)>,
    /// scenario (e): what the raw peer wrote on the streams it opened, by Quinn's identifier
    peer_sent: Vec<(u64, Vec<u8>)>,
}

fn serr(e: &StreamErrorIncoming) -> String {
    match e {
        StreamErrorIncoming::ConnectionErrorIncoming { connection_error } => format!("Connection({})", cerr(connection_error)),
        StreamErrorIncoming::StreamTerminated { error_code } => format!("StreamTerminated({error_code})"),
        StreamErrorIncoming::Unknown(e) => format!("Unknown({e})"),
    }
}
fn cerr(e: &ConnectionErrorIncoming) -> String {
    match e {
        ConnectionErrorIncoming::ApplicationClose { error_code } => format!("ApplicationClose({error_code})"),
        ConnectionErrorIncoming::Timeout => "Timeout".into(),
        ConnectionErrorIncoming::InternalError(m) => format!("InternalError({m})"),
        ConnectionErrorIncoming::Undefined(e) => format!("Undefined({e})"),
    }
}
fn pattern(n: usize, seed: usize) -> Vec<u8> {
    (0..n).map(|i| ((i * 131 + seed * 7 + (i >> 8)) % 251) as u8).collect()
}

type AConn = h3_quinn::Connection;
async fn open_bidi(a: &mut AConn) -> Result<h3_quinn::BidiStream<Bytes>, StreamErrorIncoming> {
    poll_fn(|cx| <AConn as quic::OpenStreams<Bytes>>::poll_open_bidi(a, cx)).await
}

struct Params {
    stream_window: u32,
    conn_window: u32,
    send_window: u64,
    idle_ms: Option<u32>,
}

fn one_run(ctx: &RunCtx) -> RunOut {
    e3::install();
    let mut out = one_run_inner(ctx);
    e3::uninstall();
    // a handshake that does not survive the drawn packet loss says nothing about the adapter
    if let Some(v) = &out.violation {
        if v.detail.contains("handshake: timed out") || v.detail.contains("handshake: ") {
            obs::count("probe.handshake_lost_to_packet_loss");
            out = RunOut::ok(false);
        }
    }
    out
}

fn one_run_inner(ctx: &RunCtx) -> RunOut {
    let mode = match draw(10) {
        0 | 1 | 2 => 0u8, // bytes + identifiers
        3 | 4 => 1,       // injected conditions
        5 => 2,           // full h3 stack
        6 => 3,           // datagrams through the adapter
        7 => 4,           // streams the peer opens, streams opened through the OpenStreams handle, connection-level calls
        8 => 5,           // stop_sending / reset issued through the adapter
        _ => 0,
    };
    // RFC 9114 6.2 lets h3 count on 1024 bytes of credit on its unidirectional streams: the full stack (and
    // nothing else) needs windows of at least that size
    let sw = if mode == 2 { *pick(&[65536u32, 1024, 1500, 1 << 20]) } else { *pick(&[65536u32, 1, 16, 48, 200, 1000, 1 << 20]) };
    let p = Params { stream_window: sw, conn_window: if mode == 1 || mode >= 4 { 1 << 24 } else { sw.max(*pick(&[4000u32, 100, 1 << 20])) }, send_window: if mode == 1 || mode >= 4 { 1u64 << 20 } else { *pick(&[1u64 << 20, 64, 1000]) }, idle_ms: None };
    // (mode 1 keeps Quinn's send window large: with a send window exhausted at the same moment as the stream's
    //  flow-control credit, quinn-proto 0.11.17 never wakes a writer whose stream was stopped - Streams::poll()
    //  drops the Writable event because max_data == offset, and write() looks at the connection-level limit
    //  before stop_reason - so the STOP_SENDING only surfaces as the idle timeout; that is Quinn's, not the adapter's)
    let lossy = draw(3) != 0 && !(mode == 1 && false);
    let faults = if lossy { e3::NetFaults { drop: draw(200), dup: draw(100), reorder: draw(100), max_delay_us: *pick(&[2000u32, 200, 20000]), partition: false } } else { e3::NetFaults::default() };
    e3::with(|c| c.faults = faults.clone());
    let rec: Rc<RefCell<Rec>> = Default::default();
    let fault_kind = draw(4); // mode 1: 0 stop, 1 reset, 2 close, 3 idle timeout via partition
    let code: u64 = *pick(&[0x10cu64, 0, 0x100, 0x3fff_ffff, (1 << 62) - 1, 77]);
    let idle = if (mode == 1 || mode == 4) && fault_kind == 3 { Some(10_000u32) } else { None };
    // mode 4: how many unidirectional streams the raw peer lets the adapter have open at a time
    let peer_uni_limit: u32 = if mode == 4 { *pick(&[100u32, 1, 2]) } else { 100 };
    let tune = |tc: &mut quinn::TransportConfig, p: &Params| {
        tc.stream_receive_window(quinn::VarInt::from_u32(p.stream_window));
        tc.receive_window(quinn::VarInt::from_u32(p.conn_window));
        tc.send_window(p.send_window);
        if let Some(ms) = idle {
            tc.max_idle_timeout(Some(quinn::IdleTimeout::from(quinn::VarInt::from_u32(ms))));
        } else {
            tc.max_idle_timeout(Some(quinn::IdleTimeout::from(quinn::VarInt::from_u32(60_000))));
        }
        let _ = p.idle_ms;
    };
    let pair = e3::endpoints(
        |tc| tune(tc, &p),
        |tc| {
            tune(tc, &p);
            tc.max_concurrent_uni_streams(quinn::VarInt::from_u32(peer_uni_limit));
        },
    );
    let nframes = 1 + draw_usize(4);
    let sizes: Vec<usize> = (0..nframes)
        .map(|_| {
            let w = sw as usize;
            // a frame costs about one round trip per window: keep runs within a few thousand round trips
            let cap = (w * 300).clamp(64, 262_144);
            (*pick(&[100usize, 0, 1, w.min(300_000), (w + 1).min(300_000), w.saturating_sub(1).min(300_000), 5000, 70_000, 262_144, 2 * w.min(100_000)])).min(cap)
        })
        .collect();
    let peer_bytes = pattern((*pick(&[0usize, 1, 10, 3000, 100_000])).min((sw as usize * 300).clamp(64, 100_000)), 3);
    let try_overlap = chance(1, 2);
    // one run in three (scenario a): after the frames a blob is written through the unframed path
    // (SendStreamUnframed::poll_send), the way h3's AsyncWrite does: a fresh view of the unsent rest at every poll
    let unframed_len: usize = if mode == 0 && draw(3) == 2 { (*pick(&[1usize, 1000, 5000, 70_000]) + draw_usize(3) * (sw as usize).min(70_000)).min(sw as usize * 300) } else { 0 };
    let (server, client) = (pair.server, pair.client);

    match mode {
        0 | 1 => {
            // ---- adapter side (server)
            {
                let rec = rec.clone();
                let sizes = sizes.clone();
                e3::spawn("adapter", async move {
                    let push_err = |r: &Rc<RefCell<Rec>>, s: String| r.borrow_mut().errors.push(s);
                    let Some(inc) = server.accept().await else { return push_err(&rec, "accept: endpoint closed".into()) };
                    let conn = match inc.await {
                        Ok(c) => c,
                        Err(e) => return push_err(&rec, format!("server handshake: {e}")),
                    };
                    let mut a = h3_quinn::Connection::new(conn);
                    let bi = match open_bidi(&mut a).await {
                        Ok(b) => b,
                        Err(e) => return push_err(&rec, format!("open_bidi: {}", serr(&e))),
                    };
                    let (mut tx, mut rx) = bi.split();
                    // identifiers asked in every state; they must never change and asking must never panic
                    let id_of = |what: &str, r: &Rc<RefCell<Rec>>, v: Result<u64, String>| match v {
                        Ok(id) => r.borrow_mut().ids.push((what.to_string(), id)),
                        Err(p) => r.borrow_mut().errors.push(format!("PANIC {what}: {p}")),
                    };
                    macro_rules! ask {
                        ($what:expr, $e:expr) => {{
                            let r = std::panic::catch_unwind(std::panic::AssertUnwindSafe(|| $e.into_inner()));
                            id_of($what, &rec, r.map_err(|_| crate::exec::take_last_panic().map(|(m, l)| format!("{m} at {l}")).unwrap_or_default()));
                        }};
                    }
                    ask!("send_id.fresh", tx.send_id());
                    ask!("recv_id.fresh", rx.recv_id());
                    // a read that pends (nothing has been sent to us yet), then the identifier again
                    let pending = {
                        let w = futures_util::task::noop_waker();
                        let mut cx = std::task::Context::from_waker(&w);
                        rx.poll_data(&mut cx).is_pending()
                    };
                    if pending {
                        obs::count("probe.id_query_while_read_pending");
                        ask!("recv_id.read_pending", rx.recv_id());
                    }
                    if rec.borrow().errors.iter().any(|e| e.starts_with("PANIC")) {
                        return;
                    }
                    // writer
                    let rec_w = rec.clone();
                    let write_task = async move {
                        for (i, n) in sizes.iter().enumerate() {
                            let payload = Bytes::from(pattern(*n, i));
                            if let Err(e) = tx.send_data(Frame::Data(payload)) {
                                rec_w.borrow_mut().outcome.push(("send_data".into(), serr(&e)));
                                return tx;
                            }
                            if try_overlap && i == 0 {
                                // a new write while the previous one is unfinished must be refused, not interleaved
                                let r = tx.send_data(Frame::Data(Bytes::from_static(b"INTERLEAVED")));
                                rec_w.borrow_mut().overlap.push(match &r {
                                    Ok(()) => "accepted".into(),
                                    Err(e) => serr(e),
                                });
                            }
                            let r = std::panic::catch_unwind(std::panic::AssertUnwindSafe(|| tx.send_id().into_inner()));
                            if let Ok(id) = r {
                                rec_w.borrow_mut().ids.push(("send_id.write_in_flight".into(), id));
                            }
                            if let Err(e) = poll_fn(|cx| tx.poll_ready(cx)).await {
                                rec_w.borrow_mut().outcome.push(("poll_ready".into(), serr(&e)));
                                // a later call on the same stream must not turn into a connection-level error
                                let r2 = tx.send_data(Frame::Data(Bytes::from_static(b"after-error")));
                                let r2 = match r2 {
                                    Ok(()) => poll_fn(|cx| tx.poll_ready(cx)).await,
                                    Err(e) => Err(e),
                                };
                                rec_w.borrow_mut().outcome.push(("write_after_error".into(), r2.err().map(|e| serr(&e)).unwrap_or("ok".into())));
                                return tx;
                            }
                        }
                        if unframed_len > 0 {
                            obs::count("probe.unframed_write");
                            let blob = pattern(unframed_len, 99);
                            let mut sent = 0usize;
                            while sent < blob.len() {
                                let rw = rec_w.clone();
                                let r = poll_fn(|cx| {
                                    let mut view: &[u8] = &blob[sent..];
                                    let before = view.len();
                                    let p = quic::SendStreamUnframed::poll_send(&mut tx, cx, &mut view);
                                    match &p {
                                        std::task::Poll::Pending if view.len() != before => rw.borrow_mut().errors.push(format!("CONTRACT poll_send returned Pending but took {} bytes out of the buffer", before - view.len())),
                                        std::task::Poll::Ready(Ok(n)) if view.len() != before - n => rw.borrow_mut().errors.push(format!("CONTRACT poll_send reported {n} bytes but advanced the buffer by {}", before - view.len())),
                                        _ => {}
                                    }
                                    p
                                })
                                .await;
                                match r {
                                    Ok(n) => sent += n,
                                    Err(e) => {
                                        rec_w.borrow_mut().outcome.push(("poll_send".into(), serr(&e)));
                                        return tx;
                                    }
                                }
                            }
                        }
                        if let Err(e) = poll_fn(|cx| tx.poll_finish(cx)).await {
                            rec_w.borrow_mut().outcome.push(("poll_finish".into(), serr(&e)));
                        }
                        rec_w.borrow_mut().done.push("writer".into());
                        tx
                    };
                    let rec_r = rec.clone();
                    let read_task = async move {
                        let mut got = vec![];
                        loop {
                            match poll_fn(|cx| rx.poll_data(cx)).await {
                                Ok(Some(b)) => {
                                    got.extend_from_slice(&b);
                                    if got.len() == b.len() {
                                        let r = std::panic::catch_unwind(std::panic::AssertUnwindSafe(|| rx.recv_id().into_inner()));
                                        match r {
                                            Ok(id) => rec_r.borrow_mut().ids.push(("recv_id.after_first_chunk".into(), id)),
                                            Err(_) => rec_r.borrow_mut().errors.push("PANIC recv_id.after_first_chunk".into()),
                                        }
                                    }
                                }
                                Ok(None) => {
                                    rec_r.borrow_mut().adapter_read = Some(got);
                                    rec_r.borrow_mut().done.push("reader".into());
                                    return rx;
                                }
                                Err(e) => {
                                    rec_r.borrow_mut().outcome.push(("poll_data".into(), serr(&e)));
                                    rec_r.borrow_mut().adapter_read = Some(got);
                                    // a second read of the same stream (h3's recv_trailers after a failed recv_data) must be
                                    // answered - the condition again, or end of stream - never with data, never by a panic
                                    let again = poll_fn(|cx| std::task::Poll::Ready(rx.poll_data(cx))).await;
                                    rec_r.borrow_mut().outcome.push((
                                        "poll_data.again".into(),
                                        match again {
                                            std::task::Poll::Pending => "pending".into(),
                                            std::task::Poll::Ready(Ok(Some(b))) => format!("DATA {} bytes", b.len()),
                                            std::task::Poll::Ready(Ok(None)) => "end".into(),
                                            std::task::Poll::Ready(Err(e2)) => serr(&e2),
                                        },
                                    ));
                                    return rx;
                                }
                            }
                        }
                    };
                    let (tx, rx) = futures_util::future::join(write_task, read_task).await;
                    let r = std::panic::catch_unwind(std::panic::AssertUnwindSafe(|| (tx.send_id().into_inner(), rx.recv_id().into_inner())));
                    if let Ok((s, r)) = r {
                        rec.borrow_mut().ids.push(("send_id.end".into(), s));
                        rec.borrow_mut().ids.push(("recv_id.end".into(), r));
                    } else {
                        rec.borrow_mut().errors.push("PANIC id query at the end".into());
                    }
                    // keep everything alive until the run is over
                    std::future::pending::<()>().await;
                    drop((a, tx, rx));
                });
            }
            // ---- raw Quinn peer (client)
            {
                let rec = rec.clone();
                let peer_bytes = peer_bytes.clone();
                let total: usize = sizes.iter().map(|n| frames::frame(frames::DATA, &vec![0; *n]).len()).sum();
                e3::spawn("peer", async move {
                    let conn = match client.connect(e3::SERVER_ADDR.parse().unwrap(), "localhost").unwrap().await {
                        Ok(c) => c,
                        Err(e) => return rec.borrow_mut().errors.push(format!("client handshake: {e}")),
                    };
                    let (mut s, mut r) = match conn.accept_bi().await {
                        Ok(x) => x,
                        Err(e) => return rec.borrow_mut().errors.push(format!("peer accept_bi: {e} ({e:?})")),
                    };
                    if mode == 1 {
                        // injected condition at a drawn point of the transfer
                        let after = draw_usize(total.max(1));
                        let mut got = vec![];
                        while got.len() < after {
                            match r.read_chunk(usize::MAX, true).await {
                                Ok(Some(c)) => got.extend_from_slice(&c.bytes),
                                _ => break,
                            }
                        }
                        let _ = s.write_all(&peer_bytes[..peer_bytes.len() / 2]).await;
                        match fault_kind {
                            0 => {
                                let _ = r.stop(quinn::VarInt::from_u64(code).unwrap());
                                obs::count("fault.peer_stop");
                            }
                            1 => {
                                let _ = s.reset(quinn::VarInt::from_u64(code).unwrap());
                                obs::count("fault.peer_reset");
                            }
                            2 => {
                                conn.close(quinn::VarInt::from_u64(code).unwrap(), b"bye");
                                obs::count("fault.peer_close");
                            }
                            _ => {
                                e3::with(|c| c.faults.partition = true);
                                obs::count("fault.partition_until_idle_timeout");
                            }
                        }
                        rec.borrow_mut().peer_read = Some(got);
                        std::future::pending::<()>().await;
                        drop((conn, s, r));
                        return;
                    }
                    let rec_a = rec.clone();
                    let reader = async move {
                        match r.read_to_end(4_000_000).await {
                            Ok(v) => rec_a.borrow_mut().peer_read = Some(v),
                            Err(e) => rec_a.borrow_mut().errors.push(format!("peer read_to_end: {e} ({e:?})")),
                        }
                    };
                    let rec_b = rec.clone();
                    let writer = async move {
                        let mut off = 0;
                        while off < peer_bytes.len() {
                            let k = (peer_bytes.len() - off).min(1 + draw_usize(5000));
                            if let Err(e) = s.write_all(&peer_bytes[off..off + k]).await {
                                rec_b.borrow_mut().errors.push(format!("peer write: {e} ({e:?})"));
                                return;
                            }
                            off += k;
                        }
                        let _ = s.finish();
                        // keep the stream handle: dropping it early is not part of the scenario
                        std::future::pending::<()>().await;
                        drop(s);
                    };
                    futures_util::future::join(reader, writer).await;
                    drop(conn);
                });
            }
        }
        2 => {
            // ---- full stack: real h3 client and server on two adapters
            let req_body = pattern(*pick(&[300usize, 0, 1, 20_000, 70_000]), 1);
            let resp_body = pattern(*pick(&[500usize, 0, 64, 50_000]), 2);
            {
                let rec = rec.clone();
                let resp_body = resp_body.clone();
                e3::spawn("h3-server", async move {
                    let Some(inc) = server.accept().await else { return };
                    let conn = match inc.await {
                        Ok(c) => c,
                        Err(e) => return rec.borrow_mut().errors.push(format!("server handshake: {e}")),
                    };
                    let mut h = match h3::server::Connection::<_, Bytes>::new(h3_quinn::Connection::new(conn)).await {
                        Ok(h) => h,
                        Err(e) => return rec.borrow_mut().errors.push(format!("h3 server setup: {e}")),
                    };
                    loop {
                        match h.accept().await {
                            Ok(Some(r)) => {
                                let (_req, mut s) = match r.resolve_request().await {
                                    Ok(x) => x,
                                    Err(e) => return rec.borrow_mut().errors.push(format!("resolve: {e}")),
                                };
                                let mut body = vec![];
                                loop {
                                    match s.recv_data().await {
                                        Ok(Some(d)) => body.extend(read_all(d)),
                                        Ok(None) => break,
                                        Err(e) => return rec.borrow_mut().errors.push(format!("server recv_data: {e}")),
                                    }
                                }
                                rec.borrow_mut().adapter_read = Some(body);
                                let r = async {
                                    s.send_response(http::Response::new(())).await?;
                                    let mut off = 0;
                                    while off < resp_body.len() {
                                        let k = (resp_body.len() - off).min(16384);
                                        s.send_data(Bytes::copy_from_slice(&resp_body[off..off + k])).await?;
                                        off += k;
                                    }
                                    s.finish().await
                                }
                                .await;
                                if let Err(e) = r {
                                    rec.borrow_mut().errors.push(format!("server send: {e}"));
                                }
                            }
                            Ok(None) => break,
                            Err(e) => {
                                // once the exchange is over, how the connection ends (a lost CONNECTION_CLOSE turns into
                                // an idle timeout) is not this scenario's subject
                                if !e.is_h3_no_error() && rec.borrow().adapter_read.is_none() {
                                    rec.borrow_mut().errors.push(format!("accept: {e}"));
                                }
                                break;
                            }
                        }
                    }
                    rec.borrow_mut().done.push("server".into());
                });
            }
            {
                let rec = rec.clone();
                let req_body = req_body.clone();
                e3::spawn("h3-client", async move {
                    let conn = match client.connect(e3::SERVER_ADDR.parse().unwrap(), "localhost").unwrap().await {
                        Ok(c) => c,
                        Err(e) => return rec.borrow_mut().errors.push(format!("client handshake: {e}")),
                    };
                    let (mut driver, mut sr) = match h3::client::new(h3_quinn::Connection::new(conn)).await {
                        Ok(x) => x,
                        Err(e) => return rec.borrow_mut().errors.push(format!("h3 client setup: {e}")),
                    };
                    let rec_d = rec.clone();
                    e3::spawn("h3-client-driver", async move {
                        let e = poll_fn(|cx| driver.poll_close(cx)).await;
                        if !e.is_h3_no_error() {
                            rec_d.borrow_mut().errors.push(format!("client driver: {e}"));
                        }
                        rec_d.borrow_mut().done.push("driver".into());
                    });
                    let r = async {
                        let mut s = sr.send_request(http::Request::post("https://localhost/x").body(()).unwrap()).await?;
                        let mut off = 0;
                        while off < req_body.len() {
                            let k = (req_body.len() - off).min(10_000);
                            s.send_data(Bytes::copy_from_slice(&req_body[off..off + k])).await?;
                            off += k;
                        }
                        s.finish().await?;
                        let _resp = s.recv_response().await?;
                        let mut body = vec![];
                        while let Some(d) = s.recv_data().await? {
                            body.extend(read_all(d));
                        }
                        Ok::<_, h3::error::StreamError>(body)
                    }
                    .await;
                    match r {
                        Ok(b) => rec.borrow_mut().peer_read = Some(b),
                        Err(e) => rec.borrow_mut().errors.push(format!("client: {e}")),
                    }
                    drop(sr);
                    rec.borrow_mut().done.push("client".into());
                });
            }
            let stop = {
                let rec = rec.clone();
                e3::run_until(move || rec.borrow().done.len() >= 3 || !rec.borrow().errors.is_empty(), 400_000, Duration::from_secs(300))
            };
            return finish_full_stack(ctx, stop, &rec, &req_body, &resp_body, lossy);
        }
        4 => return accepted_streams_and_connection_calls(ctx, server, client, rec, sw as usize, peer_uni_limit, fault_kind, code, lossy),
        5 => return adapter_issued_stop_and_reset(ctx, server, client, rec, sw as usize, code, lossy),
        _ => {
            // ---- datagrams through the adapter
            use h3_datagram::datagram::Datagram;
            use h3_datagram::quic_traits::{DatagramConnectionExt, SendDatagram};
            let plan: Vec<(u64, Vec<u8>)> = (0..1 + draw_usize(3)).map(|i| (4 * *pick(&[0u64, 1, 63, 64, 16384, (1 << 60) - 1]), pattern(*pick(&[0usize, 1, 100, 1000]), i))).collect();
            let chained = draw(2) == 1;
            {
                let rec = rec.clone();
                let plan = plan.clone();
                e3::spawn("adapter", async move {
                    let Some(inc) = server.accept().await else { return };
                    let conn = match inc.await {
                        Ok(c) => c,
                        Err(e) => return rec.borrow_mut().errors.push(format!("server handshake: {e}")),
                    };
                    let a = h3_quinn::Connection::new(conn);
                    if chained {
                        // a payload that is not one contiguous chunk (both parts non-empty when it has 2+ bytes)
                        type CB = bytes::buf::Chain<Bytes, Bytes>;
                        let mut sender = <AConn as DatagramConnectionExt<CB>>::send_datagram_handler(&a);
                        for (id, p) in &plan {
                            let cut = if p.len() >= 2 { 1 + draw_usize(p.len() - 1) } else { p.len() };
                            let payload: CB = bytes::Buf::chain(Bytes::copy_from_slice(&p[..cut]), Bytes::copy_from_slice(&p[cut..]));
                            let d = Datagram::new(quic::StreamId::try_from(*id).unwrap(), payload);
                            if let Err(e) = <_ as SendDatagram<CB>>::send_datagram(&mut sender, d.encode()) {
                                rec.borrow_mut().errors.push(format!("send_datagram: {e:?}"));
                            }
                        }
                        obs::count("probe.datagram_payload_in_two_chunks");
                    } else {
                        let mut sender = <AConn as DatagramConnectionExt<Bytes>>::send_datagram_handler(&a);
                        for (id, p) in &plan {
                            let d = Datagram::new(quic::StreamId::try_from(*id).unwrap(), Bytes::from(p.clone()));
                            if let Err(e) = <_ as SendDatagram<Bytes>>::send_datagram(&mut sender, d.encode()) {
                                rec.borrow_mut().errors.push(format!("send_datagram: {e:?}"));
                            }
                        }
                    }
                    rec.borrow_mut().done.push("sender".into());
                    std::future::pending::<()>().await;
                    drop(a);
                });
            }
            {
                let rec = rec.clone();
                e3::spawn("peer", async move {
                    let conn = match client.connect(e3::SERVER_ADDR.parse().unwrap(), "localhost").unwrap().await {
                        Ok(c) => c,
                        Err(e) => return rec.borrow_mut().errors.push(format!("client handshake: {e}")),
                    };
                    loop {
                        match conn.read_datagram().await {
                            Ok(b) => rec.borrow_mut().outcome.push(("datagram".into(), b.iter().map(|x| format!("{x:02x}")).collect::<String>())),
                            Err(_) => return,
                        }
                    }
                });
            }
            let stop = e3::run_until(|| false, 200_000, Duration::from_secs(5));
            if let Some(v) = panic_violation() {
                return v;
            }
            let r = rec.borrow();
            if let Some(e) = r.errors.first() {
                return fail("C17.datagram_send_failed", format!("{e}; all {:?}", r.errors), "datagram");
            }
            let expected: Vec<String> = plan.iter().map(|(id, p)| [varint::encode(id / 4), p.clone()].concat().iter().map(|x| format!("{x:02x}")).collect::<String>()).collect();
            for (_, got) in &r.outcome {
                if !expected.contains(got) {
                    return fail("C17.datagram_bytes_wrong", format!("peer received datagram {} which is not varint(S/4)||P of any datagram sent ({:?})", &got[..got.len().min(40)], plan.iter().map(|(i, p)| (*i, p.len())).collect::<Vec<_>>()), "datagram");
                }
            }
            // (datagrams are unreliable by contract: Quinn itself was seen to drop one on a loss-free simulated network;
            //  arrival is counted, not demanded)
            obs::count_n("probe.datagrams_sent", plan.len() as u64);
            obs::count_n("probe.datagrams_arrived", r.outcome.len() as u64);
            let _ = stop;
            let mut out = RunOut::ok(true);
            if ctx.want_sample {
                out.sample = Some(json!({"mode": "datagrams", "sent": plan.iter().map(|(i, p)| json!({"stream": i, "len": p.len()})).collect::<Vec<_>>(), "arrived": r.outcome.len(), "virtual_seconds": e3::now().as_secs_f64()}));
            }
            obs::count_n("sim.virtual_ms", e3::now().as_millis() as u64);
            return out;
        }
    }
    // ---- modes 0 and 1: run until the scenario's work is done (or a cap), then judge
    let stop = {
        let rec = rec.clone();
        e3::run_until(
            move || {
                let r = rec.borrow();
                if r.errors.iter().any(|e| e.starts_with("PANIC")) {
                    return true;
                }
                if mode == 0 {
                    (r.peer_read.is_some() && r.adapter_read.is_some() && r.done.iter().any(|d| d == "writer")) || !r.errors.is_empty() || !r.outcome.is_empty()
                } else {
                    match fault_kind {
                        0 => r.outcome.iter().any(|(w, _)| w == "write_after_error") || r.done.iter().any(|d| d == "writer"),
                        1 => r.outcome.iter().any(|(w, _)| w == "poll_data"),
                        _ => r.outcome.iter().any(|(w, _)| w == "poll_data") && (r.outcome.iter().any(|(w, _)| w != "poll_data" && w != "poll_data.again") || r.done.iter().any(|d| d == "writer")),
                    }
                }
            },
            600_000,
            Duration::from_secs(3600),
        )
    };
    if let Some(v) = panic_violation() {
        return v;
    }
    let r = rec.borrow().clone();
    let what = if mode == 0 { "bytes_and_ids" } else { "injected_condition" };
    obs::note(|| format!("mode {mode} window {sw} sizes {:?} faults {:?} fault_kind {fault_kind} code {code} stop {:?} rec {:?}", sizes, faults, stop, Rec { peer_read: r.peer_read.as_ref().map(|v| vec![v.len() as u8]), adapter_read: None, ..r.clone() }));
    if let Some(e) = r.errors.iter().find(|e| e.starts_with("PANIC")) {
        return RunOut::fail(Violation::new("C17.panic", format!("asking the adapter for a stream identifier panicked: {e}; ids so far {:?}", r.ids)).fact("call", e.split(':').next().unwrap_or("").trim_start_matches("PANIC ")));
    }
    // Under injected packet loss QUIC's own loss recovery can legitimately run into the idle timeout (PTO
    // back-off built up during a lossy handshake, probes lost again): the connection then ends with Timeout
    // whatever the adapter does. Such a run is inconclusive, not a violation; loss-free runs keep the rule.
    if lossy && !(mode == 1 && fault_kind == 3) && (r.errors.iter().any(|e| e.contains("Timeout") || e.contains("TimedOut")) || r.outcome.iter().any(|(_, o)| o.contains("Timeout"))) {
        obs::count("probe.run_ended_by_idle_timeout_under_packet_loss");
        return RunOut::ok(false);
    }
    if stop != Stop::Done {
        return fail("C17.did_not_finish", format!("the scenario did not finish ({stop:?}) within 400000 steps / virtual {:?}; record {:?}; pending {:?}; polls {} timer fires {} packets {}", e3::now(), Rec { peer_read: None, adapter_read: None, ..r.clone() }, e3::pending_tasks(), e3::with(|c| c.polls), e3::with(|c| c.timer_fires), e3::with(|c| c.packets_sent)), what);
    }
    // identifiers: constant for the life of the stream
    let sid: Vec<u64> = r.ids.iter().filter(|(w, _)| w.starts_with("send_id")).map(|(_, i)| *i).collect();
    let rid: Vec<u64> = r.ids.iter().filter(|(w, _)| w.starts_with("recv_id")).map(|(_, i)| *i).collect();
    if sid.windows(2).any(|w| w[0] != w[1]) || rid.windows(2).any(|w| w[0] != w[1]) || (sid.first().is_some() && rid.first().is_some() && sid[0] != rid[0]) || sid.first().map(|i| *i != 1).unwrap_or(false) {
        return fail("C17.identifier_changed", format!("identifiers reported {:?} (first server-initiated bidirectional stream is 1)", r.ids), what);
    }
    if let Some((_, o)) = r.outcome.iter().find(|(w, o)| w == "poll_data.again" && o.starts_with("DATA")) {
        return fail("C17.read_after_error_returned_data", format!("after a read of the stream had failed, the next read returned {o}; outcome {:?}", r.outcome), what);
    }
    if let Some(o) = r.overlap.first() {
        if o == "accepted" {
            return fail("C17.overlapping_write_accepted", "a second send_data was accepted while the first buffer was unfinished".into(), what);
        }
    }
    if mode == 0 {
        if let Some(e) = r.errors.iter().find(|e| e.starts_with("CONTRACT")) {
            return fail("C17.unframed_write_contract", e.clone(), what);
        }
        if let Some(e) = r.errors.first() {
            return fail("C17.transfer_failed", format!("{e}; all {:?}; outcome {:?}", r.errors, r.outcome), what);
        }
        if let Some(o) = r.outcome.first() {
            return fail("C17.transfer_failed", format!("adapter call {} failed with {}", o.0, o.1), what);
        }
        let mut expect = vec![];
        for (i, n) in sizes.iter().enumerate() {
            expect.extend(frames::frame(frames::DATA, &pattern(*n, i)));
        }
        if unframed_len > 0 {
            expect.extend(pattern(unframed_len, 99));
        }
        match &r.peer_read {
            None => return fail("C17.bytes_never_arrived", format!("the raw peer never saw the end of the stream; virtual time {:?}, pending {:?}", e3::now(), e3::pending_tasks()), what),
            Some(got) if *got != expect => {
                let first = got.iter().zip(expect.iter()).position(|(a, b)| a != b).unwrap_or(got.len().min(expect.len()));
                return fail("C17.bytes_differ", format!("raw peer read {} bytes, the adapter was handed {} bytes (frames {:?}); first difference at offset {first}", got.len(), expect.len(), sizes), what);
            }
            _ => {}
        }
        match &r.adapter_read {
            Some(got) if *got == peer_bytes => {}
            other => return fail("C17.read_bytes_differ", format!("adapter read {:?} bytes, the raw peer wrote {}", other.as_ref().map(|v| v.len()), peer_bytes.len()), what),
        }
    } else {
        // the injected condition surfaces as the right class with the peer's code
        let get = |k: &str| r.outcome.iter().find(|(w, _)| w == k).map(|(_, v)| v.clone());
        match fault_kind {
            0 => {
                // STOP_SENDING: the writer sees StreamTerminated(code) (unless it had finished writing before)
                match get("poll_ready").or(get("poll_finish")).or(get("send_data")) {
                    None => {}
                    Some(o) if o == format!("StreamTerminated({code})") => {}
                    Some(o) => return fail("C17.wrong_error_class", format!("peer stopped the stream with {code}: the write reported {o}"), "stop").map_fact("got", o.split('(').next().unwrap_or("")),
                }
                if let Some(o) = get("write_after_error") {
                    if o.starts_with("Connection(") {
                        return fail("C17.stream_error_escalated_to_connection_error", format!("after the peer's STOP_SENDING({code}) was reported, the next write on the same stream reported the connection-level error {o}"), "stop");
                    }
                }
            }
            1 => match get("poll_data") {
                Some(o) if o == format!("StreamTerminated({code})") => {
                    // what a second read of the reset stream is answered with (DESIGN 7.4 O9)
                    match get("poll_data.again").as_deref() {
                        Some("end") => obs::count("probe.read_after_reported_reset.answered_end_of_stream"),
                        Some(a) if a.starts_with("StreamTerminated") => obs::count("probe.read_after_reported_reset.answered_with_the_reset_again"),
                        _ => obs::count("probe.read_after_reported_reset.other"),
                    }
                }
                other => return fail("C17.wrong_error_class", format!("peer reset the stream with {code}: the read reported {:?}", other), "reset").map_fact("got", other.as_deref().unwrap_or("none").split('(').next().unwrap_or("")),
            },
            2 => {
                let outs: Vec<&String> = r.outcome.iter().filter(|(w, _)| w != "write_after_error").map(|(_, v)| v).collect();
                // (a CONNECTION_CLOSE that is lost is not repeated for ever: under packet loss the idle timeout is a legitimate outcome)
                if outs.is_empty() || outs.iter().any(|o| **o != format!("Connection(ApplicationClose({code}))") && !(lossy && (**o == "Connection(Timeout)" || o.contains("reset by peer")))) {
                    return fail("C17.wrong_error_class", format!("peer closed the connection with {code}: adapter calls reported {:?}", r.outcome), "close");
                }
            }
            _ => {
                let outs: Vec<&String> = r.outcome.iter().filter(|(w, _)| w != "write_after_error").map(|(_, v)| v).collect();
                if outs.is_empty() || outs.iter().any(|o| **o != "Connection(Timeout)") {
                    return fail("C17.wrong_error_class", format!("the path went silent until the idle timeout: adapter calls reported {:?}", r.outcome), "timeout");
                }
            }
        }
    }
    obs::count_n("sim.virtual_ms", e3::now().as_millis() as u64);
    obs::count_n("sim.packets", e3::with(|c| c.packets_sent));
    if sizes.iter().any(|n| *n > sw as usize) {
        obs::count("probe.frame_larger_than_stream_window");
    }
    let mut out = RunOut::ok(true);
    if ctx.want_sample {
        out.sample = Some(json!({"mode": what, "stream_receive_window": sw, "frame_payload_sizes": sizes, "network": format!("{faults:?}"), "injected": if mode == 1 { json!({"kind": (["stop", "reset", "close", "idle timeout"])[fault_kind as usize], "code": code}) } else { json!(null) }, "identifiers": r.ids, "adapter_outcomes": r.outcome, "virtual_seconds": e3::now().as_secs_f64(), "packets": e3::with(|c| c.packets_sent)}));
    }
    out
}

fn qid(id: quinn::StreamId) -> u64 {
    quinn::VarInt::from(id).into_inner()
}

/// payload of a stream in scenarios (e): the stream's identifier as its opener's Quinn reports it, a tag, a pattern
fn tagged(id: u64, tag: u8, len: usize) -> Vec<u8> {
    let mut v = id.to_be_bytes().to_vec();
    v.push(tag);
    v.extend(pattern(len, tag as usize));
    v
}

/// Scenario (e): the raw peer opens unidirectional and bidirectional streams, the adapter accepts them through
/// poll_accept_recv / poll_accept_bidi (both polled from one task, as h3's driver does), answers the bidirectional
/// ones, and opens unidirectional streams of its own through the OpenStreams handle obtained from opener() while the
/// peer grants few of them at a time. Identifiers the adapter reports are compared with Quinn's own (the opener
/// writes its stream's id into the payload). At the end the peer closes the connection, the path goes silent until
/// the idle timeout, or nothing happens; every connection-level call must report that condition's class and code.
#[allow(clippy::too_many_arguments)]
fn accepted_streams_and_connection_calls(ctx: &RunCtx, server: quinn::Endpoint, client: quinn::Endpoint, rec: Rc<RefCell<Rec>>, sw: usize, peer_uni_limit: u32, fault_kind: u32, code: u64, lossy: bool) -> RunOut {
    let cap = (sw * 200).clamp(64, 40_000);
    let n_uni = draw_usize(4);
    let n_bi = draw_usize(3);
    let n_open = draw_usize(4);
    let len = |_: usize| (*pick(&[100usize, 0, 1, 5000, 40_000])).min(cap);
    let uni_lens: Vec<usize> = (0..n_uni).map(len).collect();
    let bi_lens: Vec<(usize, usize)> = (0..n_bi).map(|i| (len(i), len(i))).collect();
    let open_lens: Vec<usize> = (0..n_open).map(len).collect();
    // 0 nothing, 1 peer closes with `code`, 2 idle timeout (partition)
    let ending = match fault_kind {
        2 => 1u8,
        3 => 2,
        _ => 0,
    };
    // ---- adapter
    {
        let rec = rec.clone();
        let bi_lens = bi_lens.clone();
        let open_lens = open_lens.clone();
        e3::spawn("adapter", async move {
            let Some(inc) = server.accept().await else { return rec.borrow_mut().errors.push("accept: endpoint closed".into()) };
            let conn = match inc.await {
                Ok(c) => c,
                Err(e) => return rec.borrow_mut().errors.push(format!("server handshake: {e}")),
            };
            rec.borrow_mut().done.push("adapter-connected".into());
            let mut a = h3_quinn::Connection::new(conn);
            let mut opener: h3_quinn::OpenStreams = <AConn as quic::Connection<Bytes>>::opener(&a);
            // streams opened through the OpenStreams handle, in a task of their own
            {
                let rec = rec.clone();
                let mut opener2 = opener.clone();
                e3::spawn("adapter-open", async move {
                    for (j, l) in open_lens.iter().enumerate() {
                        let r = poll_fn(|cx| <h3_quinn::OpenStreams as quic::OpenStreams<Bytes>>::poll_open_send(&mut opener2, cx)).await;
                        let mut s = match r {
                            Ok(s) => s,
                            Err(e) => return rec.borrow_mut().outcome.push(("open_send.planned".into(), serr(&e))),
                        };
                        let id = s.send_id().into_inner();
                        rec.borrow_mut().ids.push((format!("opened.{j}"), id));
                        let r = async {
                            s.send_data(Frame::Data(Bytes::from(tagged(id, 100 + j as u8, *l))))?;
                            poll_fn(|cx| s.poll_ready(cx)).await?;
                            poll_fn(|cx| s.poll_finish(cx)).await
                        }
                        .await;
                        if let Err(e) = r {
                            return rec.borrow_mut().outcome.push(("opened.write".into(), serr(&e)));
                        }
                        if s.send_id().into_inner() != id {
                            rec.borrow_mut().errors.push(format!("IDCHANGE opened stream {id} later reported {}", s.send_id().into_inner()));
                        }
                    }
                    rec.borrow_mut().done.push("adapter-open".into());
                });
            }
            // accept loop: both kinds polled from one task
            enum Ev {
                Uni(Result<h3_quinn::RecvStream, ConnectionErrorIncoming>),
                Bi(Result<h3_quinn::BidiStream<Bytes>, ConnectionErrorIncoming>),
            }
            let (mut uni_done, mut bi_done) = (false, false);
            let mut k = 0usize;
            while !(uni_done && bi_done) {
                let ev = poll_fn(|cx| {
                    if !uni_done {
                        if let std::task::Poll::Ready(r) = <AConn as quic::Connection<Bytes>>::poll_accept_recv(&mut a, cx) {
                            return std::task::Poll::Ready(Ev::Uni(r));
                        }
                    }
                    if !bi_done {
                        if let std::task::Poll::Ready(r) = <AConn as quic::Connection<Bytes>>::poll_accept_bidi(&mut a, cx) {
                            return std::task::Poll::Ready(Ev::Bi(r));
                        }
                    }
                    std::task::Poll::Pending
                })
                .await;
                k += 1;
                match ev {
                    Ev::Uni(Ok(mut rx)) => {
                        let rec = rec.clone();
                        e3::spawn(&format!("adapter-uni-{k}"), async move {
                            let first = rx.recv_id().into_inner();
                            let mut got = vec![];
                            loop {
                                match poll_fn(|cx| rx.poll_data(cx)).await {
                                    Ok(Some(b)) => got.extend_from_slice(&b),
                                    Ok(None) => break,
                                    Err(e) => return rec.borrow_mut().outcome.push(("accepted.read".into(), serr(&e))),
                                }
                            }
                            let last = rx.recv_id().into_inner();
                            rec.borrow_mut().accepted.push((false, first, last, got));
                        });
                    }
                    Ev::Bi(Ok(bi)) => {
                        let rec = rec.clone();
                        let bi_lens = bi_lens.clone();
                        e3::spawn(&format!("adapter-bi-{k}"), async move {
                            let first = bi.recv_id().into_inner();
                            if bi.send_id().into_inner() != first {
                                rec.borrow_mut().errors.push(format!("IDCHANGE accepted bidi stream: recv_id {first}, send_id {}", bi.send_id().into_inner()));
                            }
                            let (mut tx, mut rx) = bi.split();
                            let mut got = vec![];
                            loop {
                                match poll_fn(|cx| rx.poll_data(cx)).await {
                                    Ok(Some(b)) => got.extend_from_slice(&b),
                                    Ok(None) => break,
                                    Err(e) => return rec.borrow_mut().outcome.push(("accepted.read".into(), serr(&e))),
                                }
                            }
                            // the answer: the tag the peer used tells which length it expects
                            let tag = got.get(8).copied().unwrap_or(0) as usize;
                            let l = bi_lens.get(tag.wrapping_sub(50)).map(|x| x.1).unwrap_or(0);
                            let id = tx.send_id().into_inner();
                            let r = async {
                                tx.send_data(Frame::Data(Bytes::from(tagged(id, tag as u8, l))))?;
                                poll_fn(|cx| tx.poll_ready(cx)).await?;
                                poll_fn(|cx| tx.poll_finish(cx)).await
                            }
                            .await;
                            if let Err(e) = r {
                                return rec.borrow_mut().outcome.push(("accepted.answer".into(), serr(&e)));
                            }
                            let last = rx.recv_id().into_inner();
                            rec.borrow_mut().accepted.push((true, first, last, got));
                        });
                    }
                    Ev::Uni(Err(e)) => {
                        rec.borrow_mut().outcome.push(("accept_recv".into(), format!("Connection({})", cerr(&e))));
                        uni_done = true;
                    }
                    Ev::Bi(Err(e)) => {
                        rec.borrow_mut().outcome.push(("accept_bidi".into(), format!("Connection({})", cerr(&e))));
                        bi_done = true;
                    }
                }
            }
            // the condition is known now: every later connection-level call reports it too
            let again = poll_fn(|cx| std::task::Poll::Ready(<AConn as quic::Connection<Bytes>>::poll_accept_recv(&mut a, cx))).await;
            rec.borrow_mut().outcome.push(("accept_recv.again".into(), match again {
                std::task::Poll::Ready(Err(e)) => format!("Connection({})", cerr(&e)),
                std::task::Poll::Ready(Ok(_)) => "stream".into(),
                std::task::Poll::Pending => "pending".into(),
            }));
            let r = poll_fn(|cx| <h3_quinn::OpenStreams as quic::OpenStreams<Bytes>>::poll_open_send(&mut opener, cx)).await;
            rec.borrow_mut().outcome.push(("open_send.after".into(), r.err().map(|e| serr(&e)).unwrap_or("ok".into())));
            let r = open_bidi(&mut a).await;
            rec.borrow_mut().outcome.push(("open_bidi.after".into(), r.err().map(|e| serr(&e)).unwrap_or("ok".into())));
            rec.borrow_mut().done.push("adapter-calls".into());
            std::future::pending::<()>().await;
            drop(a);
        });
    }
    // ---- raw peer
    {
        let rec = rec.clone();
        let uni_lens = uni_lens.clone();
        let bi_lens = bi_lens.clone();
        let open_lens = open_lens.clone();
        e3::spawn("peer", async move {
            let conn = match client.connect(e3::SERVER_ADDR.parse().unwrap(), "localhost").unwrap().await {
                Ok(c) => c,
                Err(e) => return rec.borrow_mut().errors.push(format!("client handshake: {e}")),
            };
            // (a Quinn stream is announced to the other side by its first frame: every stream carries >= 9 bytes)
            let total = uni_lens.len() + bi_lens.len();
            let finished: Rc<RefCell<usize>> = Default::default();
            // drawn order of opening
            let mut order: Vec<(bool, usize)> = (0..uni_lens.len()).map(|i| (false, i)).chain((0..bi_lens.len()).map(|i| (true, i))).collect();
            for i in (1..order.len()).rev() {
                order.swap(i, draw_usize(i + 1));
            }
            for (bi, i) in order {
                let conn = conn.clone();
                let rec = rec.clone();
                let finished = finished.clone();
                if !bi {
                    let l = uni_lens[i];
                    e3::spawn(&format!("peer-uni-{i}"), async move {
                        let mut s = match conn.open_uni().await {
                            Ok(s) => s,
                            Err(e) => return rec.borrow_mut().errors.push(format!("peer open_uni: {e} ({e:?})")),
                        };
                        let id = qid(s.id());
                        let msg = tagged(id, 10 + i as u8, l);
                        if let Err(e) = s.write_all(&msg).await {
                            return rec.borrow_mut().errors.push(format!("peer write: {e} ({e:?})"));
                        }
                        let _ = s.finish();
                        rec.borrow_mut().peer_sent.push((id, msg));
                        let _ = s.stopped().await;
                        *finished.borrow_mut() += 1;
                    });
                } else {
                    let (l, al) = bi_lens[i];
                    e3::spawn(&format!("peer-bi-{i}"), async move {
                        let (mut s, mut r) = match conn.open_bi().await {
                            Ok(x) => x,
                            Err(e) => return rec.borrow_mut().errors.push(format!("peer open_bi: {e} ({e:?})")),
                        };
                        let id = qid(s.id());
                        let msg = tagged(id, 50 + i as u8, l);
                        if let Err(e) = s.write_all(&msg).await {
                            return rec.borrow_mut().errors.push(format!("peer write: {e} ({e:?})"));
                        }
                        let _ = s.finish();
                        rec.borrow_mut().peer_sent.push((id, msg));
                        match r.read_to_end(1_000_000).await {
                            Ok(v) => {
                                let want = frames::frame(frames::DATA, &tagged(id, 50 + i as u8, al));
                                if v != want {
                                    rec.borrow_mut().errors.push(format!("ANSWER on bidi stream {id}: peer read {} bytes [{}], expected {} bytes (identifier {id} first)", v.len(), v.iter().take(14).map(|x| format!("{x:02x}")).collect::<String>(), want.len()));
                                }
                            }
                            Err(e) => return rec.borrow_mut().errors.push(format!("peer read answer: {e} ({e:?})")),
                        }
                        *finished.borrow_mut() += 1;
                    });
                }
            }
            // streams the adapter opens
            for _ in 0..open_lens.len() {
                let mut r = match conn.accept_uni().await {
                    Ok(r) => r,
                    Err(e) => return rec.borrow_mut().errors.push(format!("peer accept_uni: {e} ({e:?})")),
                };
                let id = qid(r.id());
                match r.read_to_end(1_000_000).await {
                    Ok(v) => {
                        let tag = v.get(2 + 8).copied().unwrap_or(0);
                        // the frame header is 2-4 bytes; find the identifier by decoding the header with the reference
                        let ok = (0..open_lens.len()).any(|j| v == frames::frame(frames::DATA, &tagged(id, 100 + j as u8, open_lens[j])));
                        if !ok {
                            rec.borrow_mut().errors.push(format!("OPENED uni stream {id} (Quinn's identifier): peer read {} bytes [{}] which is no DATA frame carrying that identifier and a planned payload (tag byte {tag})", v.len(), v.iter().take(16).map(|x| format!("{x:02x}")).collect::<String>()));
                        }
                    }
                    Err(e) => return rec.borrow_mut().errors.push(format!("peer read opened stream: {e} ({e:?})")),
                }
            }
            // wait until everything the peer started is through
            while *finished.borrow() < total {
                e3::sleep(Duration::from_millis(5)).await;
            }
            rec.borrow_mut().done.push("peer-transfers".into());
            match ending {
                1 => {
                    // give the adapter's tasks a moment to record what they read, then close
                    e3::sleep(Duration::from_millis(50)).await;
                    conn.close(quinn::VarInt::from_u64(code).unwrap(), b"bye");
                    obs::count("fault.peer_close");
                }
                2 => {
                    e3::sleep(Duration::from_millis(50)).await;
                    e3::with(|c| c.faults.partition = true);
                    obs::count("fault.partition_until_idle_timeout");
                }
                _ => {}
            }
            std::future::pending::<()>().await;
            drop(conn);
        });
    }
    let stop = {
        let rec = rec.clone();
        let want_accepted = n_uni + n_bi;
        e3::run_until(
            move || {
                let r = rec.borrow();
                if !r.errors.is_empty() {
                    return true;
                }
                let transfers = r.done.iter().any(|d| d == "peer-transfers") && r.accepted.len() >= want_accepted && (n_open == 0 || r.done.iter().any(|d| d == "adapter-open"));
                if ending == 0 {
                    transfers || !r.outcome.is_empty()
                } else {
                    r.done.iter().any(|d| d == "adapter-calls")
                }
            },
            600_000,
            Duration::from_secs(600),
        )
    };
    if let Some(v) = panic_violation() {
        return v;
    }
    let r = rec.borrow().clone();
    let what = "accepted_and_opened_streams";
    obs::note(|| format!("mode 4 window {sw} uni {uni_lens:?} bi {bi_lens:?} opened by the adapter {open_lens:?} (peer grants {peer_uni_limit} at a time) ending {ending} code {code} stop {stop:?} outcome {:?} errors {:?} ids {:?} done {:?} accepted {:?} pending {:?}", r.outcome, r.errors, r.ids, r.done, r.accepted.iter().map(|a| (a.0, a.1, a.3.len())).collect::<Vec<_>>(), e3::pending_tasks()));
    let timed_out = r.errors.iter().any(|e| e.contains("Timeout") || e.contains("TimedOut") || e.contains("timed out")) || r.outcome.iter().any(|(_, o)| o.contains("Timeout"));
    // (also when the idle timeout is the planned ending but struck before the transfers were through: after a lossy
    //  handshake the client's 1-RTT packets can reach the server before it has the keys, are dropped there, and the
    //  backed-off PTO lies beyond the 10 s idle timeout of these runs - seen under seed 3, replayed, DESIGN 7.3)
    if lossy && timed_out && (ending != 2 || !r.done.iter().any(|d| d == "peer-transfers")) {
        obs::count("probe.run_ended_by_idle_timeout_under_packet_loss");
        return RunOut::ok(false);
    }
    if let Some(e) = r.errors.iter().find(|e| e.starts_with("IDCHANGE")) {
        return fail("C17.identifier_changed", e.clone(), what);
    }
    if let Some(e) = r.errors.iter().find(|e| e.starts_with("ANSWER") || e.starts_with("OPENED")) {
        return fail("C17.bytes_differ", e.clone(), what);
    }
    if let Some(e) = r.errors.first() {
        return fail("C17.transfer_failed", format!("{e}; all {:?}; outcome {:?}", r.errors, r.outcome), what);
    }
    if stop != Stop::Done {
        return fail("C17.did_not_finish", format!("the scenario did not finish ({stop:?}); accepted {} of {}, done {:?}, outcome {:?}, pending {:?}", r.accepted.len(), n_uni + n_bi, r.done, r.outcome, e3::pending_tasks()), what);
    }
    // every stream the peer opened was surfaced exactly once, under Quinn's identifier, with exactly its bytes
    for (bi, first, last, got) in &r.accepted {
        if first != last {
            return fail("C17.identifier_changed", format!("accepted stream reported identifier {first} when fresh and {last} at its end"), what);
        }
        let embedded = got.get(..8).map(|b| u64::from_be_bytes(b.try_into().unwrap()));
        if embedded != Some(*first) {
            return fail("C17.accepted_stream_identifier_wrong", format!("accepted {} stream: the adapter reports identifier {first}, the peer's Quinn opened it as {embedded:?}", if *bi { "bidirectional" } else { "unidirectional" }), what);
        }
        match r.peer_sent.iter().find(|(id, _)| id == first) {
            Some((_, msg)) if msg == got => {}
            other => return fail("C17.read_bytes_differ", format!("accepted stream {first}: the adapter read {} bytes, the peer wrote {:?}", got.len(), other.map(|(_, m)| m.len())), what),
        }
    }
    let mut seen: Vec<u64> = r.accepted.iter().map(|a| a.1).collect();
    seen.sort();
    if seen.windows(2).any(|w| w[0] == w[1]) {
        return fail("C17.accepted_stream_surfaced_twice", format!("accepted identifiers {seen:?}"), what);
    }
    if ending == 0 || r.done.iter().any(|d| d == "peer-transfers") {
        if r.accepted.len() != n_uni + n_bi && r.outcome.iter().all(|(w, _)| w != "accepted.read" && w != "accepted.answer") {
            return fail("C17.accepted_stream_lost", format!("the peer opened {} streams and saw all of them through; the adapter surfaced {}", n_uni + n_bi, r.accepted.len()), what);
        }
    }
    // identifiers of the streams the adapter opened: server-initiated unidirectional, 3, 7, 11, ... in order
    let opened: Vec<u64> = r.ids.iter().filter(|(w, _)| w.starts_with("opened.")).map(|(_, i)| *i).collect();
    if opened.iter().enumerate().any(|(j, id)| *id != 3 + 4 * j as u64) {
        return fail("C17.identifier_changed", format!("streams opened through the OpenStreams handle reported identifiers {opened:?} (server-initiated unidirectional streams are 3, 7, 11, ...)"), what);
    }
    if ending == 0 {
        if let Some(o) = r.outcome.first() {
            return fail("C17.transfer_failed", format!("adapter call {} failed with {} although nothing was injected", o.0, o.1), what);
        }
    } else {
        let want = if ending == 1 { format!("Connection(ApplicationClose({code}))") } else { "Connection(Timeout)".to_string() };
        for (w, o) in &r.outcome {
            let conn_call = matches!(w.as_str(), "accept_recv" | "accept_bidi" | "accept_recv.again" | "open_send.after" | "open_bidi.after");
            // (a CONNECTION_CLOSE that is lost is not repeated for ever: under packet loss the idle timeout is a legitimate outcome)
            let ok = *o == want || (lossy && ending == 1 && (o == "Connection(Timeout)" || o.contains("reset by peer")));
            if conn_call && !ok {
                return fail("C17.wrong_error_class", format!("{}: the connection-level call {w} reported {o}, expected {want}; all {:?}", if ending == 1 { format!("peer closed the connection with {code}") } else { "the path went silent until the idle timeout".into() }, r.outcome), if ending == 1 { "close" } else { "timeout" }).map_fact("call", w.split('.').next().unwrap_or(""));
            }
        }
        for c in ["accept_recv", "accept_bidi", "accept_recv.again", "open_send.after", "open_bidi.after"] {
            if !r.outcome.iter().any(|(w, _)| w == c) {
                return fail("C17.did_not_finish", format!("no outcome recorded for {c}; {:?}", r.outcome), what);
            }
        }
    }
    if peer_uni_limit < n_open as u32 {
        obs::count("probe.open_through_handle_waited_for_stream_credit");
    }
    obs::count_n("probe.streams_accepted_through_the_adapter", r.accepted.len() as u64);
    obs::count_n("sim.virtual_ms", e3::now().as_millis() as u64);
    obs::count_n("sim.packets", e3::with(|c| c.packets_sent));
    let mut out = RunOut::ok(n_uni + n_bi + n_open > 0 || ending != 0);
    if ctx.want_sample {
        out.sample = Some(json!({"mode": what, "peer_opened_uni": uni_lens, "peer_opened_bidi": bi_lens, "adapter_opened_uni": open_lens, "peer_grants_uni_streams_at_a_time": peer_uni_limit, "ending": (["nothing", "peer close", "idle timeout"])[ending as usize], "code": code, "identifiers": r.ids, "accepted_identifiers": seen, "adapter_outcomes": r.outcome, "virtual_seconds": e3::now().as_secs_f64()}));
    }
    out
}

/// Scenario (f): the application on the adapter's side stops the peer's sending (stop_sending(code)) and resets its
/// own (reset(code)); the raw peer must see exactly those codes. The stop is issued fresh, after some reads, or while
/// a read is parked inside the adapter (poll_data returned Pending) - then the reader goes on until that read has
/// completed, which is when h3-quinn can act on it.
fn adapter_issued_stop_and_reset(ctx: &RunCtx, server: quinn::Endpoint, client: quinn::Endpoint, rec: Rc<RefCell<Rec>>, sw: usize, code: u64, lossy: bool) -> RunOut {
    let stop_variant = draw(4); // 0 at once, 1 after some bytes, 2 while a read is parked, then read on once, 3 parked, then dropped (observed only)
    let reset_variant = draw(4); // 0 no reset (finish), 1 before any write, 2 after a complete write, 3 with a write in flight
    let reset_code: u64 = *pick(&[0x10cu64, 0, 0x3fff_ffff, (1 << 62) - 1, 5]);
    let after = draw_usize(3000);
    let whole = draw(2) == 1; // use the BidiStream itself instead of its halves
    {
        let rec = rec.clone();
        e3::spawn("adapter", async move {
            let Some(inc) = server.accept().await else { return rec.borrow_mut().errors.push("accept: endpoint closed".into()) };
            let conn = match inc.await {
                Ok(c) => c,
                Err(e) => return rec.borrow_mut().errors.push(format!("server handshake: {e}")),
            };
            let mut a = h3_quinn::Connection::new(conn);
            let mut bi = match open_bidi(&mut a).await {
                Ok(b) => b,
                Err(e) => return rec.borrow_mut().errors.push(format!("open_bidi: {}", serr(&e))),
            };
            // announce the stream to the peer
            let hello = async {
                bi.send_data(Frame::Data(Bytes::from_static(b"hello")))?;
                poll_fn(|cx| bi.poll_ready(cx)).await
            }
            .await;
            if reset_variant != 1 {
                if let Err(e) = hello {
                    return rec.borrow_mut().errors.push(format!("first write: {}", serr(&e)));
                }
            }
            macro_rules! both {
                ($tx:expr, $rx:expr) => {{
                    // ---- receive side
                    let mut got = 0usize;
                    if stop_variant >= 1 {
                        while got < after {
                            match poll_fn(|cx| $rx.poll_data(cx)).await {
                                Ok(Some(b)) => got += b.len(),
                                Ok(None) => break,
                                Err(e) => return rec.borrow_mut().errors.push(format!("read before the stop: {}", serr(&e))),
                            }
                        }
                    }
                    if stop_variant >= 2 {
                        // read until the adapter has nothing: the read is parked inside it now
                        let mut parked = false;
                        for _ in 0..10_000 {
                            match poll_fn(|cx| std::task::Poll::Ready($rx.poll_data(cx))).await {
                                std::task::Poll::Pending => {
                                    parked = true;
                                    break;
                                }
                                std::task::Poll::Ready(Ok(Some(b))) => got += b.len(),
                                std::task::Poll::Ready(Ok(None)) => break,
                                std::task::Poll::Ready(Err(e)) => return rec.borrow_mut().errors.push(format!("read before the stop: {}", serr(&e))),
                            }
                        }
                        if parked {
                            obs::count("probe.stop_sending_issued_while_a_read_is_parked");
                            rec.borrow_mut().done.push("parked".into());
                        }
                    }
                    let _ = got;
                    $rx.stop_sending(code);
                    rec.borrow_mut().done.push("stop-issued".into());
                    if stop_variant == 2 {
                        // the reader goes on until the parked read has completed (data, end or an error - all fine)
                        let _ = poll_fn(|cx| $rx.poll_data(cx)).await;
                    }
                    // ---- send side
                    match reset_variant {
                        0 => {
                            let _ = poll_fn(|cx| $tx.poll_finish(cx)).await;
                        }
                        1 | 2 => $tx.reset(reset_code),
                        _ => {
                            let big = Bytes::from(pattern((sw * 4).clamp(2000, 300_000), 5));
                            if $tx.send_data(Frame::Data(big)).is_ok() {
                                let p = poll_fn(|cx| std::task::Poll::Ready($tx.poll_ready(cx))).await;
                                if p.is_pending() {
                                    obs::count("probe.reset_issued_with_a_write_in_flight");
                                }
                            }
                            $tx.reset(reset_code);
                        }
                    }
                    rec.borrow_mut().done.push("adapter".into());
                }};
            }
            if whole {
                both!(bi, bi);
                if stop_variant == 3 {
                    drop(bi);
                    std::future::pending::<()>().await;
                } else {
                    std::future::pending::<()>().await;
                    drop(bi);
                }
            } else {
                let (mut tx, mut rx) = bi.split();
                both!(tx, rx);
                if stop_variant == 3 {
                    drop(rx);
                    std::future::pending::<()>().await;
                    drop(tx);
                } else {
                    std::future::pending::<()>().await;
                    drop((tx, rx));
                }
            }
            drop(a);
        });
    }
    {
        let rec = rec.clone();
        e3::spawn("peer", async move {
            let conn = match client.connect(e3::SERVER_ADDR.parse().unwrap(), "localhost").unwrap().await {
                Ok(c) => c,
                Err(e) => return rec.borrow_mut().errors.push(format!("client handshake: {e}")),
            };
            let (mut s, mut r) = match conn.accept_bi().await {
                Ok(x) => x,
                Err(e) => return rec.borrow_mut().errors.push(format!("peer accept_bi: {e} ({e:?})")),
            };
            let rec_w = rec.clone();
            let writer = async move {
                // keeps writing until it is told to stop
                let chunk = pattern(700, 9);
                for _ in 0..3000 {
                    match s.write_all(&chunk).await {
                        Ok(()) => {}
                        Err(quinn::WriteError::Stopped(c)) => return rec_w.borrow_mut().outcome.push(("peer.write".into(), format!("Stopped({})", c.into_inner()))),
                        Err(e) => return rec_w.borrow_mut().outcome.push(("peer.write".into(), format!("{e} ({e:?})"))),
                    }
                    e3::sleep(Duration::from_millis(1)).await;
                }
                match s.stopped().await {
                    Ok(Some(c)) => rec_w.borrow_mut().outcome.push(("peer.write".into(), format!("Stopped({})", c.into_inner()))),
                    other => rec_w.borrow_mut().outcome.push(("peer.write".into(), format!("{other:?}"))),
                }
            };
            let rec_r = rec.clone();
            let reader = async move {
                loop {
                    match r.read_chunk(usize::MAX, true).await {
                        Ok(Some(_)) => {}
                        Ok(None) => return rec_r.borrow_mut().outcome.push(("peer.read".into(), "end".into())),
                        Err(quinn::ReadError::Reset(c)) => return rec_r.borrow_mut().outcome.push(("peer.read".into(), format!("Reset({})", c.into_inner()))),
                        Err(e) => return rec_r.borrow_mut().outcome.push(("peer.read".into(), format!("{e} ({e:?})"))),
                    }
                }
            };
            futures_util::future::join(reader, writer).await;
            rec.borrow_mut().done.push("peer".into());
            std::future::pending::<()>().await;
            drop(conn);
        });
    }
    let stop = {
        let rec = rec.clone();
        e3::run_until(move || !rec.borrow().errors.is_empty() || rec.borrow().done.iter().any(|d| d == "peer"), 600_000, Duration::from_secs(600))
    };
    if let Some(v) = panic_violation() {
        return v;
    }
    let r = rec.borrow().clone();
    let what = "stop_and_reset_issued_through_the_adapter";
    obs::note(|| format!("mode 5 window {sw} stop variant {stop_variant} code {code} after {after}; reset variant {reset_variant} code {reset_code}; whole {whole}; stop {stop:?}; outcome {:?} errors {:?} done {:?}", r.outcome, r.errors, r.done));
    let timed_out = r.errors.iter().any(|e| e.contains("Timeout") || e.contains("TimedOut") || e.contains("timed out")) || r.outcome.iter().any(|(_, o)| o.contains("timed out") || o.contains("TimedOut"));
    if lossy && timed_out {
        obs::count("probe.run_ended_by_idle_timeout_under_packet_loss");
        return RunOut::ok(false);
    }
    if let Some(e) = r.errors.first() {
        return fail("C17.transfer_failed", format!("{e}; all {:?}; outcome {:?}", r.errors, r.outcome), what);
    }
    let get = |k: &str| r.outcome.iter().find(|(w, _)| w == k).map(|(_, v)| v.clone());
    if stop_variant == 3 {
        // observed, not judged (DESIGN 7.4 O8): a stop parked behind a pending read is lost when the handle is dropped
        match get("peer.write").as_deref() {
            Some(o) if *o == format!("Stopped({code})") => obs::count("probe.parked_stop_then_drop.peer_saw_the_code"),
            Some("Stopped(0)") => obs::count("probe.parked_stop_then_drop.peer_saw_code_0"),
            _ => obs::count("probe.parked_stop_then_drop.other"),
        }
    } else {
        if stop != Stop::Done {
            return fail("C17.adapter_stop_not_delivered", format!("stop_sending({code}) was issued through the adapter ({}), the peer's writes never failed ({stop:?}); outcome {:?}; done {:?}", (["at once", "after some reads", "while a read was parked; the reader went on until that read completed"])[stop_variant as usize], r.outcome, r.done), what).map_fact("when", (["fresh", "after_reads", "read_parked"])[stop_variant as usize]);
        }
        match get("peer.write") {
            Some(o) if o == format!("Stopped({code})") => {}
            other => return fail("C17.adapter_stop_code_wrong", format!("stop_sending({code}) was issued through the adapter, the peer's write reported {other:?}"), what).map_fact("when", (["fresh", "after_reads", "read_parked"])[stop_variant as usize]),
        }
    }
    match (reset_variant, get("peer.read")) {
        (0, Some(o)) if o == "end" => {}
        (1..=3, Some(o)) if o == format!("Reset({reset_code})") => {}
        (_, None) if stop != Stop::Done => return fail("C17.did_not_finish", format!("the peer's read never ended ({stop:?}); outcome {:?}", r.outcome), what),
        (v, other) => return fail("C17.adapter_reset_code_wrong", format!("the adapter's send side was {} the peer's read reported {other:?}", if v == 0 { "finished:".to_string() } else { format!("reset with {reset_code}:") }), what),
    }
    obs::count_n("sim.virtual_ms", e3::now().as_millis() as u64);
    obs::count_n("sim.packets", e3::with(|c| c.packets_sent));
    let mut out = RunOut::ok(true);
    if ctx.want_sample {
        out.sample = Some(json!({"mode": what, "stop_sending": {"when": (["at once", "after some reads", "read parked, reader goes on", "read parked, handle dropped (observed only)"])[stop_variant as usize], "code": code}, "send_side": {"how": (["finished", "reset before any write", "reset after a complete write", "reset with a write in flight"])[reset_variant as usize], "code": reset_code}, "whole_bidi_stream": whole, "peer_saw": r.outcome, "virtual_seconds": e3::now().as_secs_f64()}));
    }
    out
}

fn finish_full_stack(ctx: &RunCtx, stop: Stop, rec: &Rc<RefCell<Rec>>, req_body: &[u8], resp_body: &[u8], lossy: bool) -> RunOut {
    if let Some(v) = panic_violation() {
        return v;
    }
    let r = rec.borrow();
    if lossy && r.errors.iter().any(|e| e.contains("Timeout") || e.contains("TimedOut")) {
        obs::count("probe.run_ended_by_idle_timeout_under_packet_loss");
        return RunOut::ok(false);
    }
    if let Some(e) = r.errors.first() {
        return fail("C17.h3_over_quinn_failed", format!("{e}; all {:?}", r.errors), "full_stack");
    }
    if stop != Stop::Done {
        return fail("C17.did_not_finish", format!("the exchange did not finish ({stop:?}); done {:?}; pending {:?}", r.done, e3::pending_tasks()), "full_stack");
    }
    if r.adapter_read.as_deref() != Some(req_body) || r.peer_read.as_deref() != Some(resp_body) {
        return fail("C17.h3_over_quinn_bytes_differ", format!("request body {:?}/{} bytes, response body {:?}/{} bytes; done {:?}; pending {:?}", r.adapter_read.as_ref().map(|v| v.len()), req_body.len(), r.peer_read.as_ref().map(|v| v.len()), resp_body.len(), r.done, e3::pending_tasks()), "full_stack");
    }
    obs::count_n("sim.virtual_ms", e3::now().as_millis() as u64);
    obs::count_n("sim.packets", e3::with(|c| c.packets_sent));
    obs::count("probe.full_h3_stack_over_quinn");
    let mut out = RunOut::ok(true);
    if ctx.want_sample {
        out.sample = Some(json!({"mode": "full h3 stack over h3-quinn over Quinn", "request_body": req_body.len(), "response_body": resp_body.len(), "lossy_network": lossy, "virtual_seconds": e3::now().as_secs_f64()}));
    }
    out
}

fn panic_violation() -> Option<RunOut> {
    e3::with(|c| c.panic.clone()).map(|(task, msg, loc)| {
        if loc.contains("/verif/sim/src") {
            RunOut { harness_error: Some(format!("harness panic in task {task}: {msg} at {loc}")), ..Default::default() }
        } else {
            RunOut::fail(Violation::new("C17.panic", format!("panic in task {task}: {msg} at {loc}")).fact("at", loc.rsplit('/').next().unwrap_or("")))
        }
    })
}
fn fail(rule: &str, d: String, what: &str) -> RunOut {
    RunOut::fail(Violation::new(rule, d).fact("scenario", what))
}
trait MapFact {
    fn map_fact(self, k: &str, v: &str) -> Self;
}
impl MapFact for RunOut {
    fn map_fact(mut self, k: &str, v: &str) -> Self {
        if let Some(x) = self.violation.take() {
            self.violation = Some(x.fact(k, v));
        }
        self
    }
}

impl Check for C17 {
    fn id(&self) -> &'static str {
        "C17"
    }
    fn meta(&self) -> Meta {
        Meta {
            level: "exploration",
            rule: "per run two real Quinn endpoints complete a real TLS 1.3 handshake on the simulated network; transport parameters drawn (stream receive window 1 B .. 1 MiB, connection window, send window); network faults drawn per run (drop 0-20 %, duplicate 0-10 %, reorder 0-10 %, delay up to 20 ms) or none; scenarios: (a) 1-4 DATA frames with payloads 0 .. 256 KiB at window multiples +-1 written through h3_quinn send_data/poll_ready/poll_finish while the raw peer writes 0..100 KB back, identifier queries before, while a read is pending, with a write in flight, after the first chunk and at the end, a second send_data while the first is unfinished, in one run in three followed by a blob written through the unframed path (SendStreamUnframed::poll_send with a fresh view of the unsent rest at every poll, as h3's AsyncWrite does); (b) peer stop / reset / close with arbitrary codes at a drawn byte offset, or a partition until the idle timeout, with a second read of the stream after the failed one; (c) a full h3 request/response over two adapters; (d) HTTP Datagrams through the Quinn datagram adapter, payloads contiguous or in two chunks; (e) the raw peer opens 0-3 unidirectional and 0-2 bidirectional streams in a drawn order, each carrying Quinn's own identifier and a pattern, the adapter accepts them through poll_accept_recv / poll_accept_bidi polled from one task, reads them, answers the bidirectional ones, and opens 0-3 unidirectional streams through the OpenStreams handle from opener() while the peer grants 100, 2 or 1 at a time; identifiers reported when fresh and at the end must be Quinn's, bytes exact, every stream surfaced once; then nothing, a peer close with an arbitrary code, or a partition until the idle timeout: poll_accept_recv, poll_accept_bidi, a repeated poll_accept_recv, poll_open_send on the handle and poll_open_bidi must all report that condition's class and code; (f) stop_sending(code) and reset(code) issued through the adapter (whole stream or halves): the stop at once, after some reads, or while a read is parked inside the adapter with the reader going on until that read completes, the reset before any write, after a complete write or with a write in flight; the raw peer must see Stopped(code) and Reset(code) (a parked stop followed by dropping the handle is counted, not judged); every run non-trivial; distinct = distinct schedule signatures (task/packet event sequences)",
            real: &["quinn 0.11, quinn-proto, rustls (ring), h3-quinn (lib.rs, datagram.rs), h3 stream::WriteBuf and frame encoding, in scenario (c) all of h3"],
            stub: &["UDP sockets, timers, task spawner and clock (engine E3: virtual time, in-memory network, choice-driven)", "the raw Quinn peer's behaviour", "a fixed Ed25519 certificate checked into /verif/sim/certs"],
            assumptions: &["ring's system RNG influences packet contents only, never sizes or timing (runs are re-executed and compared by trace hash; a divergence is a harness error)", "DATA frame headers are compared against the minimal reference encoding"],
            quick_runs: 20_000,
            thorough_runs: 1_000_000,
        }
    }
    fn run(&self, ctx: &RunCtx) -> RunOut {
        one_run(ctx)
    }
}

//! C02 — frame boundaries follow RFC 9114 §7.1 exactly, independent of chunking.
//! Real: h3::frame::FrameStream / FrameDecoder / proto::frame::Frame::decode / BufRecvStream / BufList.
//! Stub: the transport (SimQuic receive stream fed by a scripted writer), the reader task.
use super::common::*;
use crate::choice::{draw, draw_bytes, draw_usize, pick};
use crate::exec::{Exec, Stop};
use crate::net::{self, Net, NetCfg, NetWorld, SimBuf, SimRecv, CLIENT, SERVER};
use crate::obs;
use crate::refs::frames::{self, Layout, Tail};
use crate::refs::varint;
use crate::runner::{Check, Meta, RunCtx, RunOut, Violation};
use bytes::Buf;
use h3::frame::{FrameStream, FrameStreamError};
use h3::proto::frame::{Frame, SettingId};
use h3::quic::StreamErrorIncoming;
use h3::stream::BufRecvStream;
use serde_json::json;
use std::cell::RefCell;
use std::future::poll_fn;
use std::rc::Rc;

pub struct C02;

#[derive(Debug, Clone, PartialEq)]
pub enum Item {
    Data(Vec<u8>),
    Headers(Vec<u8>),
    Settings(Vec<(u64, u64)>),
    Simple(&'static str, u64),
    PushPromise(u64),
    Wt,
}
#[derive(Debug, Clone, PartialEq)]
pub enum Term {
    End,
    Pending,
    Err(u64),
    Reset(u64),
    OtherQuic,
}
#[derive(Debug, Clone, Copy, PartialEq)]
pub enum Ending {
    Fin,
    Open,
    Reset(u64),
}

#[derive(Default, Debug, Clone, PartialEq)]
pub struct Observed {
    pub items: Vec<Item>,
    pub term: Option<Term>,
}

const KNOWN_SETTINGS: [u64; 7] = [frames::SET_QPACK_MAX_TABLE, frames::SET_MAX_FIELD_SECTION, frames::SET_QPACK_BLOCKED, frames::SET_CONNECT_PROTOCOL, frames::SET_H3_DATAGRAM, frames::SET_ENABLE_WT, frames::SET_WT_MAX_SESSIONS];

pub fn item_of(f: &Frame<h3::proto::frame::PayloadLen>) -> Item {
    match f {
        Frame::Data(_) => Item::Data(vec![]),
        Frame::Headers(b) => Item::Headers(b.to_vec()),
        Frame::Settings(s) => {
            let mut v = vec![];
            for id in KNOWN_SETTINGS {
                if let Some(x) = s.get(SettingId(id)) {
                    v.push((id, x));
                }
            }
            Item::Settings(v)
        }
        Frame::Goaway(v) => Item::Simple("GOAWAY", v.into_inner()),
        Frame::CancelPush(p) => Item::Simple("CANCEL_PUSH", format!("{p}").trim_start_matches("push ").parse().unwrap_or(u64::MAX)),
        Frame::MaxPushId(p) => Item::Simple("MAX_PUSH_ID", format!("{p}").trim_start_matches("push ").parse().unwrap_or(u64::MAX)),
        f @ Frame::PushPromise(_) => {
            let s = format!("{f:?}");
            Item::PushPromise(s.trim_start_matches("PushPromise(").trim_end_matches(')').parse().unwrap_or(u64::MAX))
        }
        Frame::WebTransportStream(_) => Item::Wt,
        Frame::Grease => Item::Wt,
    }
}

pub fn err_code(e: FrameStreamError) -> Term {
    match e {
        FrameStreamError::UnexpectedEnd => Term::Err(0x106),
        FrameStreamError::Proto(p) => {
            let ice = h3::error::internal_error::InternalConnectionError::got_frame_error(p);
            // the code is not public: recover it through the public conversion to LocalError
            let le: h3::error::LocalError = ice.into();
            match le {
                h3::error::LocalError::Application { code, .. } => Term::Err(code.value()),
                _ => Term::Err(u64::MAX),
            }
        }
        FrameStreamError::Quic(StreamErrorIncoming::StreamTerminated { error_code }) => Term::Reset(error_code),
        FrameStreamError::Quic(_) => Term::OtherQuic,
    }
}

pub struct RefOut {
    pub items: Vec<Item>,
    pub term: Vec<Term>,
    /// bytes of a DATA payload that is cut by the end of the string
    pub partial: Option<Vec<u8>>,
    pub cause: String,
}

pub fn type_name(t: u64) -> String {
    match t {
        frames::DATA => "DATA".into(),
        frames::HEADERS => "HEADERS".into(),
        frames::CANCEL_PUSH => "CANCEL_PUSH".into(),
        frames::SETTINGS => "SETTINGS".into(),
        frames::PUSH_PROMISE => "PUSH_PROMISE".into(),
        frames::GOAWAY => "GOAWAY".into(),
        frames::MAX_PUSH_ID => "MAX_PUSH_ID".into(),
        t if frames::is_h2_type(t) => "H2".into(),
        _ => "UNKNOWN".into(),
    }
}

/// RFC 9114 §7.1 / §7.2 reference outcome of a byte string with a given ending.
pub fn reference(bytes: &[u8], ending: Ending) -> RefOut {
    let (fr, tail) = frames::segment(bytes);
    let mut items = vec![];
    for f in &fr {
        if frames::is_h2_type(f.ty) {
            return RefOut { items, term: vec![Term::Err(0x105)], partial: None, cause: "h2_type".into() };
        }
        let lay = frames::layout(f.ty, &f.payload);
        match (&lay, f.ty) {
            (Layout::Ok, _) => {}
            (Layout::TooShort, frames::SETTINGS) => return RefOut { items, term: vec![Term::Err(0x106), Term::Err(0x109)], partial: None, cause: "SETTINGS.short".into() },
            (Layout::SettingsInvalid, _) => return RefOut { items, term: vec![Term::Err(0x109)], partial: None, cause: "SETTINGS.invalid".into() },
            (Layout::TooShort, t) => return RefOut { items, term: vec![Term::Err(0x106)], partial: None, cause: format!("{}.short", type_name(t)) },
            (Layout::TooLong, t) => return RefOut { items, term: vec![Term::Err(0x106)], partial: None, cause: format!("{}.long", type_name(t)) },
        }
        match f.ty {
            frames::DATA => items.push(Item::Data(f.payload.clone())),
            frames::HEADERS => items.push(Item::Headers(f.payload.clone())),
            frames::SETTINGS => {
                let all = frames::parse_settings(&f.payload).unwrap();
                let mut v = vec![];
                for id in KNOWN_SETTINGS {
                    if let Some((_, x)) = all.iter().find(|(k, _)| *k == id) {
                        v.push((id, *x));
                    }
                }
                items.push(Item::Settings(v));
            }
            frames::GOAWAY => items.push(Item::Simple("GOAWAY", varint::decode(&f.payload).unwrap().0)),
            frames::CANCEL_PUSH => items.push(Item::Simple("CANCEL_PUSH", varint::decode(&f.payload).unwrap().0)),
            frames::MAX_PUSH_ID => items.push(Item::Simple("MAX_PUSH_ID", varint::decode(&f.payload).unwrap().0)),
            frames::PUSH_PROMISE => items.push(Item::PushPromise(varint::decode(&f.payload).unwrap().0)),
            _ => {} // unknown: skipped in full, invisible
        }
    }
    let mut partial = None;
    let (term, cause) = match (&tail, ending) {
        (Tail::Clean, Ending::Fin) => (vec![Term::End], "clean".to_string()),
        (Tail::Clean, Ending::Open) => (vec![Term::Pending], "clean".to_string()),
        (Tail::Cut { ty, in_payload, have, want, .. }, e) => {
            let tn = ty.map(type_name).unwrap_or_else(|| "?".into());
            if *ty == Some(frames::DATA) && *in_payload {
                partial = Some(bytes[bytes.len() - have..].to_vec());
            }
            let mut t = match e {
                Ending::Fin => vec![Term::Err(0x106)],
                _ => vec![Term::Pending],
            };
            if let Some(t0) = ty {
                if frames::is_h2_type(*t0) {
                    t.push(Term::Err(0x105)); // may be rejected as soon as its type is known
                }
                if matches!(*t0, frames::GOAWAY | frames::CANCEL_PUSH | frames::MAX_PUSH_ID) && want.unwrap_or(0) > 8 {
                    t.push(Term::Err(0x106)); // announced length already impossible
                }
            }
            (t, format!("cut.{tn}.{}", if *in_payload { "payload" } else { "header" }))
        }
        (Tail::Clean, Ending::Reset(_)) => (vec![], "clean".to_string()),
    };
    RefOut { items, term, partial, cause }
}

fn is_prefix_items(obs: &[Item], exp: &[Item]) -> bool {
    if obs.len() > exp.len() {
        return false;
    }
    for (i, o) in obs.iter().enumerate() {
        if *o == exp[i] {
            continue;
        }
        // the last observed item may be a DATA prefix
        if i + 1 == obs.len() {
            if let (Item::Data(a), Item::Data(b)) = (o, &exp[i]) {
                if b.starts_with(a) {
                    continue;
                }
            }
        }
        return false;
    }
    true
}

pub fn judge(o: &Observed, r: &RefOut, ending: Ending) -> Result<(), Violation> {
    let term = o.term.clone().unwrap_or(Term::Pending);
    let base = |rule: &str, detail: String| Violation::new(rule, detail).fact("cause", &r.cause).fact("ending", format!("{:?}", ending).split('(').next().unwrap());
    // full expected item list incl. a partial DATA item
    let mut exp_full = r.items.clone();
    if let Some(p) = &r.partial {
        exp_full.push(Item::Data(p.clone()));
    }
    if let Ending::Reset(code) = ending {
        let mut ok_terms = vec![Term::Reset(code)];
        ok_terms.extend(r.term.iter().filter(|t| matches!(t, Term::Err(_))).cloned());
        if !is_prefix_items(&o.items, &exp_full) {
            return Err(base("C02.wrong_frames", format!("frames acted on {:?} are not a prefix of the reference segmentation {:?}", o.items, exp_full)));
        }
        if !ok_terms.contains(&term) {
            return Err(base("C02.wrong_terminal", format!("terminal {:?} not in admissible {:?}", term, ok_terms)));
        }
        return Ok(());
    }
    // FIN / open
    let n = r.items.len();
    let head_ok = o.items.len() >= n && o.items[..n] == r.items[..];
    let extra = &o.items[n.min(o.items.len())..];
    let extra_ok = match (extra, &r.partial) {
        ([], None) => true,
        ([], Some(p)) => ending == Ending::Fin || p.is_empty(),
        ([Item::Data(d)], Some(p)) => {
            if ending == Ending::Open {
                d == p
            } else {
                p.starts_with(d)
            }
        }
        _ => false,
    };
    if !head_ok || !extra_ok {
        let is_err_case = r.term.iter().all(|t| matches!(t, Term::Err(_)));
        let rule = if is_err_case && o.items.len() > n { "C02.malformed_frame_accepted" } else { "C02.wrong_frames" };
        return Err(base(rule, format!("frames acted on {:?} differ from the reference segmentation {:?} (+partial {:?})", o.items, r.items, r.partial)));
    }
    if !r.term.contains(&term) {
        let rule = match (&term, r.term.first()) {
            (Term::Pending, Some(Term::Err(_))) => "C02.error_waited_on_forever",
            (Term::End, Some(Term::Err(_))) => "C02.truncated_or_malformed_accepted",
            _ => "C02.wrong_terminal",
        };
        return Err(base(rule, format!("terminal {:?} not in admissible {:?}", term, r.term)));
    }
    Ok(())
}

/// drive one FrameStream over the byte string under one drawn chunking
pub fn drive(bytes: &[u8], ending: Ending, cfg: NetCfg) -> Result<Observed, Violation> {
    drive_late(bytes, ending, cfg, 0)
}
/// `late`: scheduler turns the reader lets pass before its first poll (so that many chunks are waiting for it)
pub fn drive_late(bytes: &[u8], ending: Ending, cfg: NetCfg, late: u32) -> Result<Observed, Violation> {
    let net = Net::new(cfg);
    {
        let mut n = net.lock().unwrap();
        n.raw_open(0);
        n.raw_write(0, CLIENT, bytes);
        match ending {
            Ending::Fin => n.raw_fin(0, CLIENT),
            Ending::Reset(c) => n.raw_reset(0, CLIENT, c),
            Ending::Open => {}
        }
        if bytes.is_empty() && ending == Ending::Open {
            // nothing would ever announce the stream; fine: the reader holds a direct handle
        }
    }
    let rec: Rc<RefCell<Observed>> = Default::default();
    let r2 = rec.clone();
    let recv: SimRecv = net::recv_handle(&net, 0, SERVER);
    let mut ex = Exec::new();
    ex.max_steps = 20_000;
    ex.spurious = draw(3) == 1;
    ex.spawn("reader", async move {
        let mut fs: FrameStream<SimRecv, SimBuf> = FrameStream::new(BufRecvStream::new(recv));
        for _ in 0..late {
            crate::exec::yield_now().await;
        }
        loop {
            match poll_fn(|cx| fs.poll_next(cx)).await {
                Ok(None) => {
                    r2.borrow_mut().term = Some(Term::End);
                    return;
                }
                Err(e) => {
                    r2.borrow_mut().term = Some(err_code(e));
                    return;
                }
                Ok(Some(f)) => {
                    let it = item_of(&f);
                    let is_data = matches!(it, Item::Data(_));
                    r2.borrow_mut().items.push(it);
                    if is_data {
                        loop {
                            match poll_fn(|cx| fs.poll_data(cx).map(|r| r.map(|o| o.map(|mut b| b.copy_to_bytes(b.remaining()))))).await {
                                Ok(Some(b)) => {
                                    if let Some(Item::Data(d)) = r2.borrow_mut().items.last_mut() {
                                        d.extend_from_slice(&b)
                                    }
                                }
                                Ok(None) => break,
                                Err(e) => {
                                    r2.borrow_mut().term = Some(err_code(e));
                                    return;
                                }
                            }
                        }
                    }
                }
            }
        }
    });
    let stop = ex.run(&mut NetWorld(net.clone()));
    if let Some(p) = &ex.panic {
        if p.in_harness() {
            return Err(Violation::new("HARNESS", format!("harness panic: {} at {}", p.msg, p.loc)));
        }
        let where_ = p.loc.rsplit('/').next().unwrap_or("").to_string();
        return Err(Violation::new("C02.panic", format!("h3 panicked: {} at {}", p.msg, p.loc)).fact("at", where_));
    }
    if stop == Stop::StepCap {
        return Err(Violation::new("HARNESS", "step cap reached in C02 drive".to_string()));
    }
    let o = rec.borrow().clone();
    Ok(o)
}

fn gen_frame() -> Vec<u8> {
    let class = draw(14);
    match class {
        0 | 1 => frame_forms(frames::DATA, &draw_bytes(draw_usize(13))),
        2 => frame_forms(frames::HEADERS, &draw_bytes(draw_usize(13))),
        3 | 4 | 5 => {
            let ty = [frames::GOAWAY, frames::CANCEL_PUSH, frames::MAX_PUSH_ID][(class - 3) as usize];
            let kind = *pick(&[PayKind::Right, PayKind::Short, PayKind::Long]);
            frame_forms(ty, &one_varint_payload(kind, some_varint_value()))
        }
        6 => {
            // SETTINGS: valid, duplicate, reserved, truncated
            let mut e = settings_payload_valid();
            match draw(5) {
                1 if !e.is_empty() => {
                    let d = e[0];
                    e.push(d)
                }
                2 => e.push((*pick(&frames::SET_H2_RESERVED), 1)),
                _ => {}
            }
            let mut p = settings_bytes(&e);
            if draw(4) == 3 && !p.is_empty() {
                let k = 1 + draw_usize(p.len().min(3));
                p.truncate(p.len() - k);
            }
            frame_forms(frames::SETTINGS, &p)
        }
        7 => {
            let mut p = varint_any_form(some_varint_value());
            if draw(3) == 2 {
                p.truncate(draw_usize(p.len()));
            } else {
                p.extend(draw_bytes(draw_usize(6)));
            }
            frame_forms(frames::PUSH_PROMISE, &p)
        }
        8 => frame_forms(*pick(&frames::H2_TYPES), &draw_bytes(draw_usize(6))),
        _ => frame_forms(*pick(&UNKNOWN_TYPES), &draw_bytes(draw_usize(if draw(8) == 7 { 300 } else { 13 }))),
    }
}

/// a long string for the trickle runs: possibly a run of tiny unknown frames, then one long frame that is not
/// DATA (unknown or HEADERS, 40-150 payload bytes), possibly a DATA frame; cut and ended like any other string
fn generate_trickle() -> (Vec<u8>, Ending) {
    let mut s = vec![];
    if draw(2) == 1 {
        for _ in 0..draw_usize(46) {
            s.extend(frames::frame(0x21 + 0x1f * draw(30) as u64, &draw_bytes(draw_usize(2))));
        }
    }
    let ty = *pick(&[frames::HEADERS, 0x21, 0x21 + 0x1f * 7]);
    s.extend(frame_forms(ty, &draw_bytes(40 + draw_usize(111))));
    if draw(2) == 1 {
        s.extend(frame_forms(frames::DATA, &draw_bytes(draw_usize(13))));
    }
    if draw(3) == 2 {
        let cut = draw_usize(s.len());
        s.truncate(cut);
    }
    let ending = match draw(4) {
        0 | 1 => Ending::Fin,
        2 => Ending::Open,
        _ => Ending::Reset(0x10c),
    };
    (s, ending)
}

fn generate() -> (Vec<u8>, Ending) {
    let n = 1 + draw_usize(4);
    let mut s = vec![];
    for _ in 0..n {
        s.extend(gen_frame());
    }
    if draw(3) == 2 && !s.is_empty() {
        let cut = draw_usize(s.len());
        s.truncate(cut);
    }
    let ending = match draw(4) {
        0 | 1 => Ending::Fin,
        2 => Ending::Open,
        _ => Ending::Reset(*pick(&[0x10c, 0, 0x100, 0x3fff_ffff_ffff_ffff])),
    };
    (s, ending)
}

const SYS_TYPES: [u64; 14] = [0x0, 0x1, 0x3, 0x4, 0x5, 0x7, 0xd, 0x2, 0x6, 0x8, 0x9, 0x21, 0x0a, 0x40];
const SYS_PAYLOADS: [&[u8]; 10] = [&[], &[0x04], &[0x00, 0x00], &[0x40, 0x04], &[0x40], &[0xc0, 0x00], &[0x04, 0x04], &[0x06, 0x01], &[0x06, 0x01, 0x06, 0x01], &[0x02, 0x01]];
pub const SYS_N: u64 = (SYS_TYPES.len() * SYS_PAYLOADS.len() * 6 * 3) as u64;
/// systematic family of short strings: type x payload pattern x truncation x ending
fn systematic(mut r: u64) -> (Vec<u8>, Ending) {
    let ty = SYS_TYPES[(r % SYS_TYPES.len() as u64) as usize];
    r /= SYS_TYPES.len() as u64;
    let p = SYS_PAYLOADS[(r % SYS_PAYLOADS.len() as u64) as usize];
    r /= SYS_PAYLOADS.len() as u64;
    let cut = r % 6;
    r /= 6;
    let ending = [Ending::Fin, Ending::Open, Ending::Reset(0x10c)][(r % 3) as usize];
    let mut s = frames::frame(ty, p);
    // followed by a small valid DATA frame so that re-synchronisation errors become visible
    s.extend(frames::frame(frames::DATA, b"ok"));
    let cut = cut as usize;
    if cut > 0 {
        let l = s.len();
        s.truncate(l.saturating_sub(cut - 1).min(l));
        if cut == 1 {
            // cut == 1: keep everything (no truncation)
        }
    }
    (s, ending)
}

fn hex(b: &[u8]) -> String {
    b.iter().map(|x| format!("{x:02x}")).collect::<Vec<_>>().join(" ")
}

impl Check for C02 {
    fn id(&self) -> &'static str {
        "C02"
    }
    fn meta(&self) -> Meta {
        Meta {
            level: "fault_enumeration",
            rule: "byte strings from a frame grammar (every known type, HTTP/2-reserved, grease/unknown types, all varint forms, right/short/long payloads, 1-4 frames, drawn truncation; the first runs enumerate a systematic family of short strings: type x payload pattern x truncation point x ending) x ending {FIN with/after last chunk, left open, RESET overtaking at a drawn point} x 1-3 drawn chunkings per string; one generated run in twelve is a long string (a run of up to 45 tiny unknown frames, a HEADERS or unknown frame of 40-150 payload bytes) that trickles in one or two bytes at a time, read in half of these runs by a reader that starts late so that dozens of chunks are waiting inside one poll; part (b), two runs in five: a valid request or response prefix followed by one frame cut by the end of the stream (DATA inside payload or length, unknown frame, trailing HEADERS, frame type), or - one of these runs in four - a stream whose very first frame is the one that is cut (HEADERS inside its payload, its length or right after its type, a multi-byte type, an unknown frame; optionally behind complete unknown frames), delivered to a real server / client following the documented call pattern, and GOAWAY / MAX_PUSH_ID / CANCEL_PUSH with a payload longer or shorter than its field on an open control stream after SETTINGS, both roles: the connection error H3_FRAME_ERROR must be reported by the call in progress and by the driver and be the code the transport is closed with first; a run is non-trivial if at least 2 chunk deliveries or a RESET happened; distinct = distinct schedule signatures",
            real: &["h3::frame::FrameStream", "h3::frame::FrameDecoder", "h3::proto::frame::Frame::decode", "h3::stream::BufRecvStream", "h3::buf::BufList", "h3::proto::varint", "h3::error::internal_error::InternalConnectionError::got_frame_error", "part (b): h3 server and client request paths, control stream processing, connection error propagation and close"],
            stub: &["QUIC transport (SimQuic receive stream fed by a scripted writer)", "executor (simexec)", "reader task obeying the poll_next/poll_data contract"],
            assumptions: &["transport chunks are never empty", "0x41 (WebTransport bidi signal) is not generated as a frame type: it is an extension with its own framing (C19)", "for SETTINGS with a truncated entry both H3_FRAME_ERROR and H3_SETTINGS_ERROR are admissible"],
            quick_runs: 3_000_000,
            thorough_runs: 120_000_000,
        }
    }
    fn run(&self, ctx: &RunCtx) -> RunOut {
        // part (b): the same errors as they surface at the server/client API (one run in five beyond the
        // systematic family)
        if ctx.run >= SYS_N && ctx.run % 5 == 4 {
            return super::c02b::run_message_stream();
        }
        if ctx.run >= SYS_N && ctx.run % 5 == 3 {
            return super::c02b::run_control_stream();
        }
        // one generated run in twelve: a long string that trickles in one or two bytes at a time, read in half of
        // these runs by a reader that starts late, so that dozens of chunks are waiting inside one poll
        let trickle = ctx.run >= SYS_N && draw(12) == 11;
        let late = if trickle && draw(2) == 1 { 600 } else { 0 };
        if trickle {
            obs::count("probe.long_frame_trickling_in");
        }
        let (bytes, ending) = if ctx.run < SYS_N {
            systematic(ctx.run)
        } else if trickle {
            generate_trickle()
        } else {
            generate()
        };
        let refo = reference(&bytes, ending);
        let k = 1 + draw_usize(3);
        let mut outs: Vec<Observed> = vec![];
        for j in 0..k {
            let cfg = NetCfg {
                chunk_mode: if trickle && j == 0 {
                    4
                } else if j == 0 {
                    draw(4) as u8
                } else {
                    1 + draw(3) as u8
                },
                fin_mode: draw(3) as u8,
                coalesce_reads: draw(4) == 1,
                segmented_reads: draw(3) == 1,
                reset_discards_rx: draw(2) == 0,
                ..NetCfg::default()
            };
            obs::note(|| format!("--- chunking {j}: {cfg:?}"));
            let o = match drive_late(&bytes, ending, cfg, if j == 0 { late } else { 0 }) {
                Ok(o) => o,
                Err(v) if v.rule == "HARNESS" => return RunOut { harness_error: Some(v.detail), ..Default::default() },
                Err(v) => return RunOut::fail(v.fact("cause", &refo.cause).fact("ending", format!("{:?}", ending).split('(').next().unwrap())),
            };
            obs::note(|| format!("observed {:?}", o));
            if let Err(v) = judge(&o, &refo, ending) {
                let mut v = v;
                v.detail = format!("bytes [{}] ending {:?}: {}", hex(&bytes), ending, v.detail);
                return RunOut::fail(v);
            }
            outs.push(o);
        }
        // how much of a DATA payload that is cut by FIN was handed out before the truncation error
        // legitimately depends on the chunking (DATA is streamed): compare without that item
        if refo.partial.is_some() && ending == Ending::Fin {
            for o in outs.iter_mut() {
                o.items.truncate(refo.items.len());
            }
        }
        if !matches!(ending, Ending::Reset(_)) && outs.windows(2).any(|w| w[0] != w[1]) {
            return RunOut::fail(Violation::new("C02.chunking_dependent", format!("bytes [{}] ending {:?}: outcomes differ between chunkings: {:?}", hex(&bytes), ending, outs)).fact("cause", &refo.cause));
        }
        let nontrivial = obs::counter("net.chunk_delivered") >= 2 || obs::counter("net.reset_delivered") > 0;
        let mut out = RunOut::ok(nontrivial);
        if ctx.want_sample {
            out.sample = Some(json!({"bytes": hex(&bytes), "ending": format!("{ending:?}"), "chunkings": k, "reference_cause": refo.cause, "observed": format!("{:?}", outs[0])}));
        }
        out
    }
}

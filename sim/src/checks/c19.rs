//! C19 — WebTransport streams stay attached to their session, bytes intact.
use super::common::*;
use super::peer::*;
use crate::choice::{chance, draw, draw_bytes, draw_usize, pick};
use crate::exec::{self, Exec, Stop};
use crate::net::{self, Net, NetCfg, NetWorld, SimBuf, SimConn, CLIENT, SERVER};
use crate::obs;
use crate::refs::frames;
use crate::refs::qpack;
use crate::refs::varint;
use crate::runner::{Check, Meta, RunCtx, RunOut, Violation};
use h3::ext::Protocol;
use h3::quic::{RecvStream as _, SendStream as _, StreamId};
use h3_webtransport::server::{AcceptedBi, WebTransportSession};
use h3_webtransport::SessionId;
use serde_json::json;
use std::cell::RefCell;
use std::collections::BTreeMap;
use std::future::poll_fn;
use std::rc::Rc;

pub struct C19;

/// Read a WebTransport stream to its end through one of the three interfaces the stream types offer, recording
/// every byte in `rec.incoming[id]` as soon as it has been read: 0 the h3::quic::RecvStream trait, 1 tokio's
/// AsyncRead the way read_exact uses it (one ReadBuf of `cap` bytes that is filled over several calls), 2 the
/// futures AsyncRead with a slice of `cap` bytes.
macro_rules! wt_read_all {
    ($s:expr, $mode:expr, $cap:expr, $rec:expr, $id:expr, $label:expr) => {{
        let id = $id;
        match $mode {
            1 => {
                obs::count("probe.wt_stream_read_through_tokio_asyncread");
                let cap: usize = $cap;
                let mut storage = vec![0u8; cap];
                let mut filled = 0usize;
                loop {
                    let r = poll_fn(|cx| {
                        let mut rb = tokio::io::ReadBuf::new(&mut storage);
                        rb.set_filled(filled);
                        match tokio::io::AsyncRead::poll_read(std::pin::Pin::new(&mut $s), cx, &mut rb) {
                            std::task::Poll::Ready(Ok(())) => std::task::Poll::Ready(Ok(rb.filled().len())),
                            std::task::Poll::Ready(Err(e)) => std::task::Poll::Ready(Err(e)),
                            std::task::Poll::Pending => std::task::Poll::Pending,
                        }
                    })
                    .await;
                    match r {
                        Ok(n) if n < filled => {
                            $rec.borrow_mut().read_errs.push(format!("{} {id}: tokio poll_read lowered the fill level of the caller's ReadBuf from {filled} to {n}", $label));
                            break;
                        }
                        Ok(n) if n == filled => {
                            $rec.borrow_mut().incoming.get_mut(&id).unwrap().2 = true;
                            break;
                        }
                        Ok(n) => {
                            $rec.borrow_mut().incoming.get_mut(&id).unwrap().1.extend_from_slice(&storage[filled..n]);
                            filled = if n == cap { 0 } else { n };
                        }
                        Err(e) => {
                            $rec.borrow_mut().read_errs.push(format!("{} {id}: {e}", $label));
                            break;
                        }
                    }
                }
            }
            2 => {
                obs::count("probe.wt_stream_read_through_futures_asyncread");
                let cap: usize = $cap;
                let mut storage = vec![0u8; cap];
                loop {
                    let r = poll_fn(|cx| futures_util::io::AsyncRead::poll_read(std::pin::Pin::new(&mut $s), cx, &mut storage)).await;
                    match r {
                        Ok(0) => {
                            $rec.borrow_mut().incoming.get_mut(&id).unwrap().2 = true;
                            break;
                        }
                        Ok(n) => $rec.borrow_mut().incoming.get_mut(&id).unwrap().1.extend_from_slice(&storage[..n]),
                        Err(e) => {
                            $rec.borrow_mut().read_errs.push(format!("{} {id}: {e}", $label));
                            break;
                        }
                    }
                }
            }
            _ => loop {
                match poll_fn(|cx| h3::quic::RecvStream::poll_data(&mut $s, cx)).await {
                    Ok(Some(b)) => $rec.borrow_mut().incoming.get_mut(&id).unwrap().1.extend_from_slice(&b),
                    Ok(None) => {
                        $rec.borrow_mut().incoming.get_mut(&id).unwrap().2 = true;
                        break;
                    }
                    Err(e) => {
                        $rec.borrow_mut().read_errs.push(format!("{} {id}: {e}", $label));
                        break;
                    }
                }
            },
        }
    }};
}

/// Write `payload` on a WebTransport stream through one of the three interfaces the stream types offer and,
/// if `fin`, end the stream through the same interface: 0 h3::quic::SendStreamUnframed::poll_send /
/// SendStream::poll_finish, 1 tokio's AsyncWrite the way write_all / shutdown use it, 2 the futures AsyncWrite
/// (write_all / close). Every call offers at most `offer` bytes of what is left. Yields whether every call
/// succeeded; a write call that reports more bytes than it was offered, or none, is recorded as a failure.
macro_rules! wt_write_all {
    ($s:expr, $mode:expr, $offer:expr, $payload:expr, $fin:expr, $rec:expr, $id:expr) => {{
        let p: &[u8] = $payload;
        let offer: usize = $offer;
        let mut off = 0usize;
        let mut ok = true;
        while off < p.len() && ok {
            let end = (off + offer.max(1)).min(p.len());
            let given = end - off;
            let r: Result<usize, String> = match $mode {
                1 => poll_fn(|cx| tokio::io::AsyncWrite::poll_write(std::pin::Pin::new(&mut $s), cx, &p[off..end])).await.map_err(|e| e.to_string()),
                2 => poll_fn(|cx| futures_util::io::AsyncWrite::poll_write(std::pin::Pin::new(&mut $s), cx, &p[off..end])).await.map_err(|e| e.to_string()),
                _ => {
                    let mut b = &p[off..end];
                    poll_fn(|cx| h3::quic::SendStreamUnframed::poll_send(&mut $s, cx, &mut b)).await.map_err(|e| e.to_string())
                }
            };
            match r {
                Ok(n) if n == 0 || n > given => {
                    $rec.borrow_mut().open_errs.push(format!("stream {}: a write call that was offered {given} bytes reported {n} written (interface {})", $id, $mode));
                    ok = false;
                }
                Ok(n) => off += n,
                Err(e) => {
                    $rec.borrow_mut().open_errs.push(format!("stream {}: write failed: {e} (interface {})", $id, $mode));
                    ok = false;
                }
            }
        }
        if ok && $mode != 0 {
            // flush is part of what write_all + flush / shutdown do
            let r = match $mode {
                1 => poll_fn(|cx| tokio::io::AsyncWrite::poll_flush(std::pin::Pin::new(&mut $s), cx)).await.map_err(|e| e.to_string()),
                _ => poll_fn(|cx| futures_util::io::AsyncWrite::poll_flush(std::pin::Pin::new(&mut $s), cx)).await.map_err(|e| e.to_string()),
            };
            if let Err(e) = r {
                $rec.borrow_mut().open_errs.push(format!("stream {}: flush failed: {e}", $id));
                ok = false;
            }
        }
        if ok && $fin {
            let r = match $mode {
                1 => poll_fn(|cx| tokio::io::AsyncWrite::poll_shutdown(std::pin::Pin::new(&mut $s), cx)).await.map_err(|e| e.to_string()),
                2 => poll_fn(|cx| futures_util::io::AsyncWrite::poll_close(std::pin::Pin::new(&mut $s), cx)).await.map_err(|e| e.to_string()),
                _ => poll_fn(|cx| h3::quic::SendStream::poll_finish(&mut $s, cx)).await.map_err(|e| e.to_string()),
            };
            if let Err(e) = r {
                $rec.borrow_mut().open_errs.push(format!("stream {}: finishing failed: {e} (interface {})", $id, $mode));
                ok = false;
            }
        }
        match $mode {
            1 => obs::count("probe.wt_stream_written_through_tokio_asyncwrite"),
            2 => obs::count("probe.wt_stream_written_through_futures_asyncwrite"),
            _ => obs::count("probe.wt_stream_written_through_poll_send"),
        }
        ok
    }};
}

fn sid_value(s: SessionId) -> u64 {
    StreamId::from(s).into_inner()
}

#[derive(Default, Debug)]
struct Rec {
    session_id: Option<u64>,
    session_err: Option<String>,
    /// incoming streams by QUIC stream id: (reported session id, bytes, ended cleanly)
    incoming: BTreeMap<u64, (u64, Vec<u8>, bool)>,
    read_errs: Vec<String>,
    opened: Vec<(bool, u64, Vec<u8>, bool)>, // (uni, stream id, payload written, finished by the application)
    /// answers written on bidi streams the client opened: (stream id, payload, finished by the application)
    replied: Vec<(u64, Vec<u8>, bool)>,
    open_errs: Vec<String>,
    other_requests: u32,
    accept_err: Option<String>,
    build_err: Option<String>,
}

impl Check for C19 {
    fn id(&self) -> &'static str {
        "C19"
    }
    fn meta(&self) -> Meta {
        Meta {
            level: "exploration",
            rule: "CONNECT (webtransport) request placed on stream id 4k for k in {0,1,2,3,15,16,4095,4096,2^28,2^58} (1-, 2-, 4- and 8-byte varint ids), accepted first or after 0-2 ordinary requests; extension enabled or disabled on the server; 0-3 client-opened WebTransport uni and 0-2 bidi streams (read whole, or split() before the first read; each stream read through the h3::quic::RecvStream trait, through tokio's AsyncRead with one ReadBuf of 1-16 bytes filled over several calls as read_exact does, or through the futures AsyncRead) whose header (0x54/0x41 + session id, every varint form) and payload (0..40 bytes, sometimes 300) are delivered in 1-3 byte chunks so that every boundary inside the two varints and the header/payload boundary falls on a chunk edge, incl. header+payload in one chunk with nothing after it and header then FIN; 0-2 server-opened uni and bidi streams (bidi: whole, or split() and written by the send half) and, on one accepted bidi stream in two, an answer written back (by the send half in a task of its own after split(), before reading otherwise), each written through SendStreamUnframed::poll_send, tokio's AsyncWrite (poll_write/poll_flush/poll_shutdown as write_all and shutdown use them) or the futures AsyncWrite (poll_write/poll_flush/poll_close), 1-64 bytes offered per call, ended by the application or left open, with drawn write acceptance: the wire must carry exactly header + payload (answers: the payload only) and a FIN exactly when the application ended the stream; all interleavings drawn; judged at exact quiescence with the streams still open; non-trivial = session established and >= 1 WebTransport stream; distinct = distinct schedule signatures",
            real: &["h3_webtransport::server::WebTransportSession (accept, session_id, open_bi, open_uni, accept_bi, accept_uni)", "h3_webtransport::stream types", "h3::webtransport::SessionId", "h3 server connection, AcceptRecvStream (uni header resolution), FrameStream (0x41 signal), stream header encoding"],
            stub: &["QUIC transport incl. datagram and unframed-send extension traits (SimQuic)", "executor (simexec)", "reference client (script, reference codecs)", "application tasks"],
            assumptions: &["the reference client opens WebTransport bidi streams only after it has seen the 2xx response (a bidi stream that overtakes the CONNECT request is refused by h3's ordinary accept path, which is outside this property)", "stream ids above 2^20 are used with arrival-order accept only"],
            quick_runs: 600_000,
            thorough_runs: 24_000_000,
        }
    }
    fn run(&self, ctx: &RunCtx) -> RunOut {
        let k = *pick(&[0u64, 1, 2, 3, 15, 16, 4095, 4096, 1 << 28, 1 << 58]);
        let n_before = if k == 0 { 0 } else { draw_usize(3).min(k as usize) };
        let cid = 4 * k;
        let wt_enabled = draw(4) != 3;
        let n_uni = draw_usize(4);
        let n_bi = draw_usize(3);
        let n_open_uni = draw_usize(3);
        let n_open_bi = draw_usize(3);
        let mut cfg = NetCfg::drawn();
        cfg.chunk_mode = if chance(3, 4) { 2 } else { cfg.chunk_mode };
        cfg.in_order_accept = k <= 16 && draw(2) == 0;
        cfg.drop_send = 0;
        cfg.drop_recv_stops = false;
        let net = Net::new(cfg);
        // what the client will send on its WebTransport streams
        let mk_payload = || -> Vec<u8> {
            let n = if chance(1, 8) { 300 } else { draw_usize(41) };
            draw_bytes(n)
        };
        let uni_plan: Vec<(Vec<u8>, bool)> = (0..n_uni).map(|_| (mk_payload(), chance(1, 2))).collect();
        let bi_plan: Vec<(Vec<u8>, bool)> = (0..n_bi).map(|_| (mk_payload(), chance(1, 2))).collect();
        let open_payloads: Vec<Vec<u8>> = (0..(n_open_uni + n_open_bi)).map(|_| mk_payload()).collect();
        let rec: Rc<RefCell<Rec>> = Default::default();
        let mut ex = Exec::new();
        ex.max_steps = 60_000;
        ex.spurious = draw(3) == 1;
        // ---- reference client
        let uni_ids: Rc<RefCell<Vec<u64>>> = Default::default();
        let bi_ids: Rc<RefCell<Vec<u64>>> = Default::default();
        {
            let net = net.clone();
            let uni_plan = uni_plan.clone();
            let bi_plan = bi_plan.clone();
            let uni_ids = uni_ids.clone();
            let bi_ids = bi_ids.clone();
            ex.spawn("peer", async move {
                {
                    let mut n = net.lock().unwrap();
                    peer_control(&mut n, CLIENT, &[(frames::SET_ENABLE_WT, 1), (frames::SET_H3_DATAGRAM, 1), (frames::SET_CONNECT_PROTOCOL, 1)]);
                    for i in 0..n_before {
                        let id = (i as u64) << 2;
                        n.raw_open(id);
                        n.raw_write(id, CLIENT, &headers_frame(&request_fields("GET", "/plain")));
                        n.raw_fin(id, CLIENT);
                    }
                    n.raw_open(cid);
                    // the session can only be accepted once the client's SETTINGS are known: keep the CONNECT
                    // request back until the control stream has been delivered (scoping, see DESIGN §7)
                    n.hold(cid, CLIENT, true);
                    let connect = vec![f(":method", "CONNECT"), f(":protocol", "webtransport"), f(":scheme", "https"), f(":authority", "example.com"), f(":path", "/wt")];
                    n.raw_write(cid, CLIENT, &frames::frame(frames::HEADERS, &qpack::encode(&connect, qpack::Style::Drawn, |n| draw(n))));
                }
                {
                    let net = net.clone();
                    exec::spawn("peer-release-connect", async move {
                        for _ in 0..5000 {
                            {
                                let mut n = net.lock().unwrap();
                                let ctrl = n.sides[CLIENT as usize].opened_uni[0];
                                let d = n.dir(ctrl, CLIENT);
                                if d.delivered == d.sent.len() {
                                    n.hold(cid, CLIENT, false);
                                    return;
                                }
                            }
                            exec::yield_now().await;
                        }
                    });
                }
                // uni streams may be sent right away (the server buffers them until the session exists)
                for (p, fin) in &uni_plan {
                    for _ in 0..draw(5) {
                        exec::yield_now().await;
                    }
                    let mut n = net.lock().unwrap();
                    let id = n.raw_open_next(CLIENT, true);
                    let mut b = varint_any_form(frames::ST_WT_UNI);
                    b.extend(varint_any_form(cid));
                    b.extend_from_slice(p);
                    n.raw_write(id, CLIENT, &b);
                    if *fin {
                        n.raw_fin(id, CLIENT);
                    }
                    uni_ids.borrow_mut().push(id);
                }
                // bidi streams once the 2xx response has been seen
                for _ in 0..2000 {
                    if !net.lock().unwrap().sent(cid, SERVER).is_empty() {
                        break;
                    }
                    exec::yield_now().await;
                }
                if net.lock().unwrap().sent(cid, SERVER).is_empty() {
                    return;
                }
                for (j, (p, fin)) in bi_plan.iter().enumerate() {
                    for _ in 0..draw(5) {
                        exec::yield_now().await;
                    }
                    let mut n = net.lock().unwrap();
                    let id = cid + 4 * (j as u64 + 1);
                    n.raw_open(id);
                    let mut b = varint_any_form(frames::WT_BIDI_SIGNAL);
                    b.extend(varint_any_form(cid));
                    b.extend_from_slice(p);
                    n.raw_write(id, CLIENT, &b);
                    if *fin {
                        n.raw_fin(id, CLIENT);
                    }
                    bi_ids.borrow_mut().push(id);
                }
            });
        }
        // ---- server under test
        {
            let conn: SimConn = net::conn(&net, SERVER);
            let rec = rec.clone();
            let open_payloads = open_payloads.clone();
            ex.spawn("server", async move {
                let mut b = h3::server::builder();
                b.enable_webtransport(wt_enabled).enable_datagram(true).enable_extended_connect(true).send_grease(draw(2) == 1).max_webtransport_sessions(1);
                let mut c = match b.build::<_, SimBuf>(conn).await {
                    Ok(c) => c,
                    Err(e) => {
                        rec.borrow_mut().build_err = Some(e.to_string());
                        return;
                    }
                };
                // accept loop that does not block on a request whose headers are late: each request is resolved in
                // its own task; the one that turns out to be the WebTransport CONNECT is handed back here
                let found: Rc<RefCell<Option<(http::Request<()>, h3::server::RequestStream<net::SimBidi, SimBuf>)>>> = Default::default();
                let found_gate = Rc::new(super::e2e::Gate::default());
                loop {
                    match super::e2e::accept_or_gate(&mut c, Some(&found_gate)).await {
                        super::e2e::Accepted::Gate => break,
                        super::e2e::Accepted::Done => return,
                        super::e2e::Accepted::Err(e) => {
                            rec.borrow_mut().accept_err = Some(cout(&e).to_string());
                            return;
                        }
                        super::e2e::Accepted::Request(resolver) => {
                            let rec = rec.clone();
                            let found = found.clone();
                            let found_gate = found_gate.clone();
                            exec::spawn("resolve", async move {
                                match resolver.resolve_request().await {
                                    Ok((req, mut s)) => {
                                        if req.method() == http::Method::CONNECT && req.extensions().get::<Protocol>() == Some(&Protocol::WEB_TRANSPORT) {
                                            *found.borrow_mut() = Some((req, s));
                                            found_gate.open();
                                            return;
                                        }
                                        rec.borrow_mut().other_requests += 1;
                                        let _ = s.send_response(http::Response::builder().status(200).body(()).unwrap()).await;
                                        let _ = s.finish().await;
                                    }
                                    Err(e) => {
                                        // streams below the CONNECT id that the transport surfaced empty (in-order accept)
                                        let _ = e;
                                    }
                                }
                            });
                        }
                    }
                }
                let (req, stream) = found.borrow_mut().take().unwrap();
                let session = match WebTransportSession::accept(req, stream, c).await {
                    Ok(s) => Rc::new(s),
                    Err(e) => {
                        rec.borrow_mut().session_err = Some(e.to_string());
                        return;
                    }
                };
                rec.borrow_mut().session_id = Some(sid_value(session.session_id()));
                // one run in three: the application asks for a uni stream once and gives up after that one poll (a
                // timeout, a dropped future) before the task that keeps waiting starts; that task must still be woken.
                // (Two tasks waiting in accept_uni() at the same time share one waker slot and are not supported by
                // h3-webtransport - DESIGN 7.4 O6 - so the two waits are strictly one after the other here.)
                if draw(3) == 2 {
                    obs::count("probe.accept_uni_abandoned_by_an_earlier_waiter");
                    let mut fut = Box::pin(session.accept_uni());
                    let first = poll_fn(|cx| std::task::Poll::Ready(std::future::Future::poll(fut.as_mut(), cx))).await;
                    drop(fut);
                    if let std::task::Poll::Ready(Ok(Some((sid, mut s)))) = first {
                        // it got a stream after all: read it like the regular reader would
                        let id = s.recv_id().into_inner();
                        rec.borrow_mut().incoming.insert(id, (sid_value(sid), vec![], false));
                        let rec = rec.clone();
                        let (mode, cap) = (draw(3), 1 + draw_usize(16));
                        exec::spawn(format!("wt-uni-reader{id}"), async move {
                            wt_read_all!(s, mode, cap, rec, id, "uni");
                        });
                    }
                }
                // incoming uni streams
                {
                    let session = session.clone();
                    let rec = rec.clone();
                    exec::spawn("accept-uni", async move {
                        loop {
                            match session.accept_uni().await {
                                Ok(Some((sid, mut s))) => {
                                    let id = s.recv_id().into_inner();
                                    rec.borrow_mut().incoming.insert(id, (sid_value(sid), vec![], false));
                                    let rec = rec.clone();
                                    let (mode, cap) = (draw(3), 1 + draw_usize(16));
                                    exec::spawn(format!("wt-uni-reader{id}"), async move {
                                        wt_read_all!(s, mode, cap, rec, id, "uni");
                                    });
                                }
                                Ok(None) => return,
                                Err(e) => {
                                    rec.borrow_mut().accept_err = Some(format!("accept_uni: {}", cout(&e)));
                                    return;
                                }
                            }
                        }
                    });
                }
                // incoming bidi streams
                {
                    let session = session.clone();
                    let rec = rec.clone();
                    exec::spawn("accept-bi", async move {
                        loop {
                            match session.accept_bi().await {
                                Ok(Some(AcceptedBi::BidiStream(sid, mut s))) => {
                                    let id = s.recv_id().into_inner();
                                    rec.borrow_mut().incoming.insert(id, (sid_value(sid), vec![], false));
                                    let rec = rec.clone();
                                    // the application may split the accepted stream before it reads (one time in two)
                                    let split_first = draw(2) == 1;
                                    let (mode, cap) = (draw(3), 1 + draw_usize(16));
                                    // one accepted stream in two is answered: a payload of its own written back on the
                                    // stream the client opened (no header there), through a drawn interface, by the
                                    // send half in a task of its own if the stream was split, before reading otherwise
                                    let reply: Option<(Vec<u8>, bool, u32, usize)> = if draw(2) == 1 { Some((draw_bytes(if chance(1, 8) { 300 } else { draw_usize(41) }), chance(1, 2), draw(3), 1 + draw_usize(64))) } else { None };
                                    exec::spawn(format!("wt-bi-reader{id}"), async move {
                                        if split_first {
                                            obs::count("probe.incoming_bidi_split_before_reading");
                                            let (mut tx, mut rx) = h3::quic::BidiStream::split(s);
                                            if let Some((p, fin, wmode, offer)) = reply {
                                                let wrec = rec.clone();
                                                exec::spawn(format!("wt-bi-writer{id}"), async move {
                                                    obs::count("probe.incoming_bidi_answered_by_its_send_half");
                                                    if wt_write_all!(tx, wmode, offer, &p, fin, wrec, id) {
                                                        wrec.borrow_mut().replied.push((id, p, fin));
                                                    }
                                                    std::future::pending::<()>().await;
                                                    drop(tx);
                                                });
                                                wt_read_all!(rx, mode, cap, rec, id, "bidi (receive half)");
                                                std::future::pending::<()>().await;
                                                return;
                                            }
                                            wt_read_all!(rx, mode, cap, rec, id, "bidi (receive half)");
                                            std::future::pending::<()>().await;
                                            drop(tx);
                                            return;
                                        }
                                        if let Some((p, fin, wmode, offer)) = reply {
                                            obs::count("probe.incoming_bidi_answered_before_reading");
                                            if wt_write_all!(s, wmode, offer, &p, fin, rec, id) {
                                                rec.borrow_mut().replied.push((id, p, fin));
                                            }
                                        }
                                        wt_read_all!(s, mode, cap, rec, id, "bidi");
                                        std::future::pending::<()>().await;
                                    });
                                }
                                Ok(Some(AcceptedBi::Request(_, mut s))) => {
                                    rec.borrow_mut().other_requests += 1;
                                    let _ = s.send_response(http::Response::builder().status(200).body(()).unwrap()).await;
                                    let _ = s.finish().await;
                                }
                                Ok(None) => return,
                                Err(e) => {
                                    rec.borrow_mut().accept_err = Some(format!("accept_bi: {e}"));
                                    return;
                                }
                            }
                        }
                    });
                }
                // streams the server opens for the session
                let mut keep_bi = vec![];
                let mut keep_uni = vec![];
                let mut keep_halves = vec![];
                for (j, p) in open_payloads.iter().enumerate() {
                    let uni = j < n_open_uni;
                    // interface, bytes offered per call, and whether the application ends the stream: all drawn
                    let (wmode, offer, fin) = (draw(3), 1 + draw_usize(64), draw(2) == 1);
                    if uni {
                        match session.open_uni(session.session_id()).await {
                            Ok(mut s) => {
                                let id = s.send_id().into_inner();
                                if wt_write_all!(s, wmode, offer, &p[..], fin, rec, id) {
                                    rec.borrow_mut().opened.push((true, id, p.clone(), fin));
                                }
                                keep_uni.push(s);
                            }
                            Err(e) => rec.borrow_mut().open_errs.push(format!("open_uni: {e}")),
                        }
                    } else {
                        match session.open_bi(session.session_id()).await {
                            Ok(mut s) => {
                                let id = s.send_id().into_inner();
                                if draw(3) == 2 {
                                    // the application splits the stream it opened and writes through the send half
                                    obs::count("probe.opened_bidi_split_before_writing");
                                    let (mut tx, rx) = h3::quic::BidiStream::split(s);
                                    if wt_write_all!(tx, wmode, offer, &p[..], fin, rec, id) {
                                        rec.borrow_mut().opened.push((false, id, p.clone(), fin));
                                    }
                                    keep_halves.push((tx, rx));
                                } else {
                                    if wt_write_all!(s, wmode, offer, &p[..], fin, rec, id) {
                                        rec.borrow_mut().opened.push((false, id, p.clone(), fin));
                                    }
                                    // keep the handle until the run is over so that a drop does not end the stream
                                    keep_bi.push(s);
                                }
                            }
                            Err(e) => rec.borrow_mut().open_errs.push(format!("open_bi: {e}")),
                        }
                    }
                }
                std::future::pending::<()>().await;
                drop(keep_bi);
                drop(keep_uni);
                drop(keep_halves);
                drop(session);
            });
        }
        let stop = ex.run(&mut NetWorld(net.clone()));
        if let Some(p) = &ex.panic {
            if p.in_harness() {
                return RunOut { harness_error: Some(format!("harness panic: {} at {}", p.msg, p.loc)), ..Default::default() };
            }
            return RunOut::fail(Violation::new("C19.panic", format!("h3 panicked in task {}: {} at {}", p.task, p.msg, p.loc)).fact("at", p.loc.rsplit('/').next().unwrap_or("")));
        }
        if stop == Stop::StepCap {
            return RunOut::fail(Violation::new("C19.step_cap", "no quiescence".to_string()));
        }
        let r = rec.borrow();
        let n = net.lock().unwrap();
        obs::note(|| format!("cid={cid} n_before={n_before} wt_enabled={wt_enabled} uni {:?} bi {:?}; observed {:?}", uni_plan.iter().map(|(p, f)| (p.len(), *f)).collect::<Vec<_>>(), bi_plan.iter().map(|(p, f)| (p.len(), *f)).collect::<Vec<_>>(), r));
        let idform = match varint::size(cid) {
            1 => "1byte",
            2 => "2byte",
            4 => "4byte",
            _ => "8byte",
        };
        let mk = |rule: &str, d: String| RunOut::fail(Violation::new(rule, format!("{d}; CONNECT on stream {cid} after {n_before} other requests, extension enabled {wt_enabled}")).fact("connect_id_form", idform));
        if let Some(e) = &r.build_err {
            return mk("C19.setup_failed", e.clone());
        }
        if let Some(e) = &r.accept_err {
            return mk("C19.connection_error", format!("accept path failed: {e}; closes {:?}", n.closes));
        }
        if let Some(e) = &r.session_err {
            return mk("C19.session_not_established", e.clone());
        }
        if let Some(c) = n.closes_by(SERVER).first() {
            return mk("C19.connection_error", format!("server closed the connection with {}", code_name(*c)));
        }
        let Some(sid) = r.session_id else { return mk("C19.session_not_established", "the CONNECT request was never turned into a session".into()) };
        if sid != cid {
            return mk("C19.session_id_not_connect_stream_id", format!("session_id() = {sid}, CONNECT stream id = {cid}"));
        }
        if !r.read_errs.is_empty() {
            return mk("C19.read_failed", format!("{:?}", r.read_errs));
        }
        if !r.open_errs.is_empty() {
            return mk("C19.open_failed", format!("{:?}", r.open_errs));
        }
        // incoming uni streams: surfaced iff enabled, id as written, payload intact and complete without further bytes
        for (j, id) in uni_ids.borrow().iter().enumerate() {
            let (p, fin) = &uni_plan[j];
            match (wt_enabled, r.incoming.get(id)) {
                (false, Some(_)) => return mk("C19.uni_surfaced_while_disabled", format!("uni stream {id} was surfaced although the extension is disabled")),
                (false, None) => {}
                (true, None) => return mk("C19.uni_stream_not_surfaced", format!("uni stream {id} (payload {} bytes, fin {fin}) was completely delivered but never surfaced", p.len())).map_fact("shape", if p.is_empty() && *fin { "header_then_fin" } else if *fin { "finished" } else { "left_open" }),
                (true, Some((s, got, ended))) => {
                    if *s != cid {
                        return mk("C19.incoming_session_id_wrong", format!("uni stream {id}: reported session {s}, peer wrote {cid}"));
                    }
                    if got != p {
                        return mk("C19.payload_wrong", format!("uni stream {id}: got {} bytes, sent {} ({})", got.len(), p.len(), if p.starts_with(got) { "prefix: rest not delivered although nothing more will arrive" } else { "different bytes" })).map_fact("kind", if p.starts_with(got) { "incomplete" } else { "corrupted" });
                    }
                    if *ended != *fin {
                        return mk("C19.end_wrong", format!("uni stream {id}: ended {ended}, peer finished {fin}"));
                    }
                }
            }
        }
        for (j, id) in bi_ids.borrow().iter().enumerate() {
            let (p, fin) = &bi_plan[j];
            match r.incoming.get(id) {
                None => return mk("C19.bidi_stream_not_surfaced", format!("bidi stream {id} (payload {} bytes, fin {fin}) was completely delivered but never surfaced", p.len())),
                Some((s, got, ended)) => {
                    if *s != cid {
                        return mk("C19.incoming_session_id_wrong", format!("bidi stream {id}: reported session {s}, peer wrote {cid}"));
                    }
                    if got != p {
                        return mk("C19.payload_wrong", format!("bidi stream {id}: got {} bytes, sent {}", got.len(), p.len())).map_fact("kind", if p.starts_with(got) { "incomplete" } else { "corrupted" });
                    }
                    if *ended != *fin {
                        return mk("C19.end_wrong", format!("bidi stream {id}: ended {ended}, peer finished {fin}"));
                    }
                }
            }
        }
        // streams the server opened: header = type + CONNECT stream id, then exactly the payload
        for (uni, id, p, fin) in &r.opened {
            let w = n.sent(*id, SERVER);
            let d = n.dir_ref(*id, SERVER);
            let (fin_calls, fin_sent, reset) = d.map(|d| (d.finish_calls, d.fin_sent, d.reset_calls.clone())).unwrap_or_default();
            if (*fin && !fin_sent) || (!*fin && fin_calls > 0) || !reset.is_empty() {
                return mk("C19.opened_stream_end_wrong", format!("stream {id}: the application {} the stream; the transport saw {fin_calls} finish call(s), FIN sent {fin_sent}, resets {reset:?}", if *fin { "ended" } else { "did not end" }));
            }
            let want_ty = if *uni { frames::ST_WT_UNI } else { frames::WT_BIDI_SIGNAL };
            let parsed = varint::decode(w).and_then(|(ty, a)| varint::decode(&w[a..]).map(|(sid, b)| (ty, sid, a + b)));
            match parsed {
                Some((ty, s, hl)) if ty == want_ty && s == cid => {
                    if &w[hl..] != &p[..] {
                        return mk("C19.opened_stream_payload_wrong", format!("stream {id}: {} payload bytes on the wire, {} written", w.len() - hl, p.len()));
                    }
                }
                other => return mk("C19.opened_stream_header_wrong", format!("stream {id} opened for session {cid}: wire begins [{}] = {:?}, expected type {want_ty:#x} + id {cid}", w.iter().take(16).map(|x| format!("{x:02x}")).collect::<Vec<_>>().join(" "), other)),
            }
        }
        // answers on streams the client opened: exactly the payload, no header, ended iff the application ended it
        for (id, p, fin) in &r.replied {
            let w = n.sent(*id, SERVER);
            if w != &p[..] {
                return mk("C19.answer_payload_wrong", format!("bidi stream {id} opened by the client: {} bytes on the wire [{}], the application wrote {} [{}]", w.len(), w.iter().take(12).map(|x| format!("{x:02x}")).collect::<Vec<_>>().join(" "), p.len(), p.iter().take(12).map(|x| format!("{x:02x}")).collect::<Vec<_>>().join(" ")));
            }
            let d = n.dir_ref(*id, SERVER);
            let (fin_calls, fin_sent, reset) = d.map(|d| (d.finish_calls, d.fin_sent, d.reset_calls.clone())).unwrap_or_default();
            if (*fin && !fin_sent) || (!*fin && fin_calls > 0) || !reset.is_empty() {
                return mk("C19.answer_end_wrong", format!("bidi stream {id}: the application {} its answer; the transport saw {fin_calls} finish call(s), FIN sent {fin_sent}, resets {reset:?}", if *fin { "ended" } else { "did not end" }));
            }
        }
        if r.other_requests as usize != n_before {
            return mk("C19.other_request_lost", format!("{} of {n_before} ordinary requests were served", r.other_requests));
        }
        if uni_plan.iter().any(|(p, f)| p.is_empty() && *f) {
            obs::count("probe.uni_header_then_fin");
        }
        if varint::size(cid) > 1 {
            obs::count("probe.multibyte_session_id");
        }
        if !wt_enabled {
            obs::count("probe.extension_disabled");
        }
        let mut out = RunOut::ok(n_uni + n_bi + r.opened.len() >= 1);
        if ctx.want_sample {
            out.sample = Some(json!({"connect_stream_id": cid, "requests_before": n_before, "extension_enabled": wt_enabled, "client_uni_streams": uni_plan.iter().map(|(p, f)| json!({"payload_len": p.len(), "fin": f})).collect::<Vec<_>>(), "client_bidi_streams": bi_plan.iter().map(|(p, f)| json!({"payload_len": p.len(), "fin": f})).collect::<Vec<_>>(), "server_opened": r.opened.iter().map(|(u, id, p, fin)| json!({"uni": u, "stream": id, "payload_len": p.len(), "finished": fin})).collect::<Vec<_>>(), "answers_on_client_opened_bidi": r.replied.iter().map(|(id, p, fin)| json!({"stream": id, "payload_len": p.len(), "finished": fin})).collect::<Vec<_>>(), "session_id_reported": sid}));
        }
        out
    }
}

trait MapFact {
    fn map_fact(self, k: &str, v: &str) -> Self;
}
impl MapFact for RunOut {
    fn map_fact(mut self, k: &str, v: &str) -> Self {
        if let Some(x) = self.violation.take() {
            self.violation = Some(x.fact(k, v));
        }
        self
    }
}

//! C14 — everything h3 writes is valid HTTP/3, however the transport takes it.
use super::c01::show;
use super::e2e::*;
use super::peer::*;
use super::wire::{self, SideWire};
use crate::choice::{chance, draw, draw_usize, pick};
use crate::net::{NetCfg, CLIENT, SERVER};
use crate::obs;
use crate::refs::qpack::{self, Field};
use crate::runner::{Check, Meta, RunCtx, RunOut, Violation};
use serde_json::json;

pub struct C14;

const SIZES: [u64; 9] = [0, 1, 63, 64, 16383, 16384, (1 << 30) - 1, 1 << 30, (1 << 62) - 1];

fn gen_build(server: bool) -> BuildCfg {
    BuildCfg {
        // small limits would refuse the generated messages; they are C10's subject
        max_field_section_size: match draw(4) {
            0 => None,
            1 => Some(*pick(&SIZES[4..])),
            2 => Some(1 << 20),
            _ => Some((1 << 62) - 1),
        },
        datagram: draw(2) == 1,
        webtransport: server && draw(2) == 1,
        extended_connect: draw(2) == 1,
        max_wt_sessions: if server && draw(2) == 1 { Some(*pick(&SIZES)) } else { None },
    }
}

fn gen_setup() -> Setup {
    let n = 1 + draw_usize(4);
    let mut exchanges: Vec<Exchange> = (0..n).map(|i| gen_exchange(i, true)).collect();
    for x in exchanges.iter_mut() {
        if chance(1, 6) {
            x.req.body.abandon_after = Some(draw_usize(x.req.body.pieces.len() + 1));
        }
        if chance(1, 6) {
            x.resp.body.abandon_after = Some(draw_usize(x.resp.body.pieces.len() + 1));
        }
        if x.req.protocol.is_some() {
            x.req.protocol = None;
            x.req.method = "POST".into();
        }
    }
    let mut chaos = Chaos::default();
    let ns = draw(4);
    for _ in 0..ns.saturating_sub(1) {
        chaos.srv_shutdown.push((draw(60), *pick(&[0usize, 1, 2, 3, 0, 1, 2, 3, usize::MAX, 1 << 60])));
    }
    if chance(1, 4) {
        chaos.cli_shutdown = Some(draw(60));
    }
    Setup { exchanges, grease: [draw(2) == 1, draw(2) == 1], concurrent: draw(3) != 0, build: [gen_build(false), gen_build(true)], chaos }
}

fn xid(fields: &[Field]) -> Option<usize> {
    fields.iter().find(|(n, _)| n == b"x-id").and_then(|(_, v)| String::from_utf8_lossy(v).parse().ok())
}

fn judge(out: &Outcome) -> Result<(SideWire, SideWire), Violation> {
    let n = out.net.lock().unwrap();
    if let Some(c) = n.contract.first() {
        return Err(Violation::new("C14.transport_contract", format!("h3 misused the transport: {c}")));
    }
    if let Some((side, id)) = out.untyped_uni_at_quiescence.first() {
        return Err(Violation::new("C14.uni_stream_without_type", format!("unidirectional stream {id} had been opened by the {} and carried no byte when everything had come to rest (every task parked, no write held back by the transport, connection up): it has no stream type", if *side == CLIENT { "client" } else { "server" })).fact("side", if *side == CLIENT { "client" } else { "server" }));
    }
    let cw = wire::check_side(&n, CLIENT, false).map_err(|(r, d)| Violation::new(&format!("C14.{r}"), d).fact("side", "client"))?;
    let sw = wire::check_side(&n, SERVER, false).map_err(|(r, d)| Violation::new(&format!("C14.{r}"), d).fact("side", "server"))?;
    // DATA payloads concatenate to exactly what was passed to send_data; HEADERS decode to what was submitted
    for r in &cw.requests {
        let Some(h) = r.headers.first() else { continue };
        let fields = qpack::decode(h).map_err(|e| Violation::new("C14.headers_not_rfc9204", format!("stream {}: request field section rejected by the reference decoder: {e}", r.id)).fact("side", "client"))?;
        let Some(i) = xid(&fields) else { return Err(Violation::new("C14.headers_content", format!("stream {}: request HEADERS without the submitted x-id field: {:?}", r.id, show(&fields))).fact("side", "client")) };
        let x = &out.setup.exchanges[i];
        let fin_by_h3 = n.dir_ref(r.id, CLIENT).map(|d| d.finish_calls > 0).unwrap_or(false);
        check_body("client", r, &x.req.body, &x.req.trailers, fin_by_h3)?;
        if let Some(sr) = sw.requests.iter().find(|q| q.id == r.id) {
            if let Some(h) = sr.headers.first() {
                let fields = qpack::decode(h).map_err(|e| Violation::new("C14.headers_not_rfc9204", format!("stream {}: response field section rejected by the reference decoder: {e}", r.id)).fact("side", "server"))?;
                let status = fields.iter().find(|(n, _)| n == b":status").map(|(_, v)| String::from_utf8_lossy(v).into_owned());
                if status.as_deref() == Some("431") {
                    continue; // automatic header-too-big answer (not from the application)
                }
                if status != Some(x.resp.status.to_string()) {
                    return Err(Violation::new("C14.headers_content", format!("stream {}: response :status on the wire {:?}, submitted {}", r.id, status, x.resp.status)).fact("side", "server"));
                }
                let fin_by_h3 = n.dir_ref(r.id, SERVER).map(|d| d.finish_calls > 0).unwrap_or(false);
                check_body("server", sr, &x.resp.body, &x.resp.trailers, fin_by_h3)?;
            }
        }
    }
    Ok((cw, sw))
}

fn check_body(side: &str, r: &wire::ReqWire, body: &Body, trailers: &Option<Vec<Field>>, fin_by_h3: bool) -> Result<(), Violation> {
    let planned: usize = match body.abandon_after {
        Some(k) => body.pieces[..k.min(body.pieces.len())].iter().sum(),
        None => body.data.len(),
    };
    if !body.data[..planned].starts_with(&r.body) {
        return Err(Violation::new("C14.data_payload_mismatch", format!("stream {}: DATA payloads on the wire ({} bytes) are not a prefix of the bytes passed to send_data ({} bytes, pieces {:?})", r.id, r.body.len(), planned, body.pieces)).fact("side", side));
    }
    if fin_by_h3 {
        if r.body.len() != body.data.len() {
            return Err(Violation::new("C14.data_payload_mismatch", format!("stream {} was finished: DATA payloads total {} bytes, send_data was given {} bytes", r.id, r.body.len(), body.data.len())).fact("side", side));
        }
        if !r.clean_tail {
            return Err(Violation::new("C14.frame_incomplete_on_finished_stream", format!("stream {} finished with an incomplete frame", r.id)).fact("side", side));
        }
        let want_headers = 1 + trailers.is_some() as usize;
        if r.headers.len() != want_headers {
            return Err(Violation::new("C14.headers_count", format!("stream {} finished with {} HEADERS frames, expected {want_headers}", r.id, r.headers.len())).fact("side", side));
        }
        if let Some(t) = trailers {
            let got = qpack::decode(&r.headers[1]).map_err(|e| Violation::new("C14.headers_not_rfc9204", format!("stream {}: trailer section rejected by the reference decoder: {e}", r.id)).fact("side", side))?;
            if by_name(&got) != by_name(t) {
                return Err(Violation::new("C14.headers_content", format!("stream {}: trailers on the wire {:?}, submitted {:?}", r.id, show(&got), show(t))).fact("side", side));
            }
        }
    }
    Ok(())
}

impl Check for C14 {
    fn id(&self) -> &'static str {
        "C14"
    }
    fn meta(&self) -> Meta {
        Meta {
            level: "exploration",
            rule: "generated programs: 1-4 exchanges in both roles (send_request/send_response, send_data with buffers of any size incl. empty and multi-chunk, send_trailers, finish, streams abandoned after a drawn number of pieces, whole or split streams), server shutdown(n) calls (0-2, n in 0..3 or, one call in five, 2^60 / usize::MAX: 'let everything in flight through') and a client shutdown at drawn moments, builder options drawn (field-section limit, datagram, WebTransport, extended CONNECT, session limit, grease) x drawn write acceptance (down to 1 byte, header-splitting, copy_to_bytes), pends, stream credit, task order; every byte log of every stream either endpoint wrote is parsed by the reference RFC 9114 parser; a unidirectional stream that was opened and then abandoned without a byte, or that still carries no byte at the first exact quiescence of the run (every task parked, no write held back by the transport, nothing closed), never got a stream type; streams opened without end and a run that never comes to rest are reported; in one run in eight the transport refuses one of an endpoint's first four unidirectional streams with a stream-level error; non-trivial = >= 1 request stream carried a complete HEADERS frame and >= 1 partial write or write pend happened; distinct = distinct schedule signatures",
            real: &["h3 client and server (all of h3/src)", "http, bytes, tokio::sync::mpsc"],
            stub: &["QUIC transport (SimQuic, both ends)", "executor (simexec)", "applications (generated call programs)"],
            assumptions: &["futures are awaited to completion (a cancelled send is outside the documented pattern), except the server's accept() which is cancelled for shutdown(n) as in the documented select pattern", "push is not implemented by h3: a push stream or PUSH_PROMISE on the wire is reported"],
            quick_runs: 300_000,
            thorough_runs: 12_000_000,
        }
    }
    fn run(&self, ctx: &RunCtx) -> RunOut {
        let setup = gen_setup();
        let mut cfg = NetCfg::drawn();
        if cfg.write_pend_den == 0 && !cfg.write_partial {
            cfg.write_partial = true; // this check is about how the transport takes the writes
        }
        // one run in eight: the transport refuses one of the first four unidirectional streams an endpoint asks for
        // (a stream-level error, the connection is fine): h3 goes on without a QPACK or grease stream, and whatever
        // it did open must still get its type
        if draw(8) == 7 {
            cfg.refuse_uni_open_at[draw_usize(2)] = Some(draw(4));
        }
        let out = run_exchanges(setup, cfg, chance(1, 3));
        if let Some(p) = &out.panic {
            if p.in_harness() {
                return RunOut { harness_error: Some(format!("harness panic: {} at {}", p.msg, p.loc)), ..Default::default() };
            }
            return RunOut::fail(Violation::new("C14.panic", format!("h3 panicked in task {}: {} at {}", p.task, p.msg, p.loc)).fact("at", p.loc.rsplit('/').next().unwrap_or("")));
        }
        obs::note(|| format!("build cfg {:?} chaos {:?}", out.setup.build, out.setup.chaos));
        if out.stop == crate::exec::Stop::StepCap {
            // what is on the wire so far may already say why (streams opened without end, ...)
            if let Err(v) = judge(&out) {
                return RunOut::fail(v);
            }
            let n = out.net.lock().unwrap();
            let opened = [n.sides[CLIENT as usize].opened_uni.len(), n.sides[SERVER as usize].opened_uni.len()];
            return RunOut::fail(Violation::new("C14.step_cap", format!("no quiescence within the step cap; unidirectional streams opened: client {}, server {}; pending {:?}", opened[0], opened[1], out.pending)));
        }
        match judge(&out) {
            Err(v) => RunOut::fail(v),
            Ok((cw, sw)) => {
                if !cw.goaways.is_empty() || !sw.goaways.is_empty() {
                    obs::count("probe.goaway_on_wire");
                }
                if cw.requests.iter().chain(sw.requests.iter()).any(|r| r.empty_data_frames > 0) {
                    obs::count("probe.empty_data_frame_on_wire");
                }
                if cw.requests.iter().chain(sw.requests.iter()).any(|r| r.reserved_frames > 0) {
                    obs::count("probe.grease_frame_on_wire");
                }
                if cw.uni_types.iter().chain(sw.uni_types.iter()).any(|(_, t)| crate::refs::frames::is_reserved(*t)) {
                    obs::count("probe.grease_stream_on_wire");
                }
                let nontrivial = cw.requests.iter().any(|r| !r.headers.is_empty()) && (obs::counter("net.write_partial_chunk") + obs::counter("net.write_pended") + obs::counter("net.write_copy_to_bytes") > 0);
                let mut r = RunOut::ok(nontrivial);
                if ctx.want_sample {
                    r.sample = Some(json!({"exchanges": out.setup.exchanges.len(), "build": format!("{:?}", out.setup.build), "chaos": format!("{:?}", out.setup.chaos), "client_uni_stream_types": cw.uni_types, "server_goaways": sw.goaways, "client_request_streams": cw.requests.iter().map(|r| json!({"id": r.id, "data_frames": r.data_frames, "empty_data_frames": r.empty_data_frames, "body_bytes": r.body.len(), "headers_frames": r.headers.len(), "reserved_frames": r.reserved_frames})).collect::<Vec<_>>(), "errors_seen_by_apps": out.rec.borrow().errors.len()}));
                }
                r
            }
        }
    }
}

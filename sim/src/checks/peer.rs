//! Scripted-peer helpers: a raw HTTP/3 peer speaking through the reference codecs only.
use crate::net::Net;
use crate::refs::qpack::{self, Field};
use crate::refs::{frames, varint};
use http::HeaderMap;

pub fn f(n: &str, v: &str) -> Field {
    (n.as_bytes().to_vec(), v.as_bytes().to_vec())
}

/// open the peer's control stream and write SETTINGS (returns the stream id)
pub fn peer_control(n: &mut Net, side: u8, settings: &[(u64, u64)]) -> u64 {
    let id = n.raw_open_next(side, true);
    let mut b = varint::encode(frames::ST_CONTROL);
    b.extend(frames::settings(settings));
    n.raw_write(id, side, &b);
    id
}
/// open the peer's QPACK encoder and decoder streams (type byte only)
pub fn peer_qpack_streams(n: &mut Net, side: u8) -> (u64, u64) {
    let e = n.raw_open_next(side, true);
    n.raw_write(e, side, &varint::encode(frames::ST_QPACK_ENC));
    let d = n.raw_open_next(side, true);
    n.raw_write(d, side, &varint::encode(frames::ST_QPACK_DEC));
    (e, d)
}

pub fn request_fields(method: &str, path: &str) -> Vec<Field> {
    vec![f(":method", method), f(":scheme", "https"), f(":authority", "example.com"), f(":path", path)]
}
pub fn response_fields(status: u16) -> Vec<Field> {
    vec![f(":status", &status.to_string())]
}
pub fn headers_frame(fields: &[Field]) -> Vec<u8> {
    frames::frame(frames::HEADERS, &qpack::encode_plain(fields))
}

pub fn hm(fields: &[Field]) -> HeaderMap {
    let mut m = HeaderMap::new();
    for (n, v) in fields {
        m.append(http::header::HeaderName::from_bytes(n).expect("header name"), http::HeaderValue::from_bytes(v).expect("header value"));
    }
    m
}
/// fields of a HeaderMap, grouped by name (first-occurrence order), values in order
pub fn fields_of(m: &HeaderMap) -> Vec<Field> {
    let mut v = vec![];
    for n in m.keys() {
        for x in m.get_all(n) {
            v.push((n.as_str().as_bytes().to_vec(), x.as_bytes().to_vec()));
        }
    }
    v
}
/// per-name value sequences (what header-field fidelity means: order within a name is kept)
pub fn by_name(fs: &[Field]) -> std::collections::BTreeMap<Vec<u8>, Vec<Vec<u8>>> {
    let mut m = std::collections::BTreeMap::new();
    for (n, v) in fs {
        m.entry(n.clone()).or_insert_with(Vec::new).push(v.clone());
    }
    m
}
pub fn read_all(mut b: impl bytes::Buf) -> Vec<u8> {
    let mut v = Vec::with_capacity(b.remaining());
    while b.has_remaining() {
        let c = b.chunk();
        let n = c.len();
        v.extend_from_slice(c);
        b.advance(n);
    }
    v
}

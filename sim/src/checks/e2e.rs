//! Real h3 client <-> real h3 server over SimQuic: generated exchanges, application models following
//! the documented call pattern (whole streams or split halves), complete record of what each side
//! submitted and obtained. Used by C01 (fidelity) and C14 (wire validity).
use super::common::*;
use super::peer::*;
use crate::choice::{chance, draw, draw_bytes, draw_usize, pick};
use crate::exec::{self, Exec, Stop};
use crate::net::{self, Net, NetCfg, NetWorld, Shared, SimBuf, SimConn, CLIENT, SERVER};
use crate::obs;
use crate::refs::qpack::Field;
use h3::ext::Protocol;
use std::cell::RefCell;
use std::future::poll_fn;
use std::rc::Rc;

#[derive(Clone, Debug, Default)]
pub struct Body {
    pub data: Vec<u8>,
    /// piece lengths (may contain zeros), summing to data.len()
    pub pieces: Vec<usize>,
    /// hand pieces over as multi-chunk buffers
    pub multi: bool,
    /// (C14 only) drop the stream after this many pieces instead of completing the message
    pub abandon_after: Option<usize>,
}
#[derive(Clone, Debug)]
pub struct ReqSpec {
    pub method: String,
    pub uri: String,
    pub protocol: Option<&'static str>,
    pub headers: Vec<Field>,
    pub body: Body,
    pub trailers: Option<Vec<Field>>,
    pub split: bool,
    /// the client splits its stream only after this many recv_data calls on the whole stream (0 = not at all
    /// when `split` is false; when `split` is true the stream is split before anything is sent)
    pub late_split: usize,
    // expected at the server
    pub exp_scheme: Option<String>,
    pub exp_authority: String,
    pub exp_path_query: Option<String>,
}
#[derive(Clone, Debug)]
pub struct RespSpec {
    pub status: u16,
    pub headers: Vec<Field>,
    pub body: Body,
    pub trailers: Option<Vec<Field>>,
    pub split: bool,
    /// when `split`: number of recv_data calls made on the whole stream before it is split
    pub split_after: usize,
    /// respond before the request body has been read completely (only when split)
    pub early: bool,
    /// whole-stream pattern only: the response is sent (and finished) before the request body is read
    pub respond_first: bool,
}
#[derive(Clone, Debug)]
pub struct Exchange {
    pub req: ReqSpec,
    pub resp: RespSpec,
}
#[derive(Clone, Debug, Default)]
pub struct Got {
    pub start: String,
    pub scheme: Option<String>,
    pub authority: Option<String>,
    pub path_query: Option<String>,
    pub protocol: Option<String>,
    pub headers: Vec<Field>,
    pub body: Vec<u8>,
    pub chunks: u32,
    pub clean_ends: u32,
    pub trailers: Option<Vec<Field>>,
    pub trailers_done: bool,
}
#[derive(Default, Debug)]
pub struct Rec {
    pub got_req: Vec<Option<Got>>,
    pub got_resp: Vec<Option<Got>>,
    pub stream_ids: Vec<Option<u64>>,
    pub errors: Vec<(String, String)>,
    pub client_driver: Option<COut>,
    pub server_driver: Option<Result<(), COut>>,
}

const NAMES: [&str; 9] = ["x-a", "x-b", "accept", "cookie", "content-type", "user-agent", "x-long-header-name-not-in-the-static-table", "cache-control", "accept-encoding"];
fn gen_value() -> Vec<u8> {
    match draw(9) {
        0 => b"1".to_vec(),
        1 => vec![],
        2 => b"*/*".to_vec(),
        3 => b"text/plain".to_vec(),
        4 => b"a=b; c=d".to_vec(),
        5 => b" leading and trailing ".to_vec(),
        6 => vec![0xe9, 0x80, 0xff, b'x'], // obs-text
        7 => b"no-cache".to_vec(),
        _ => {
            let n = 1 + draw_usize(if chance(1, 8) { 300 } else { 20 });
            draw_bytes(n).into_iter().map(|b| 0x21 + b % 0x5e).collect()
        }
    }
}
pub fn gen_fields(max: usize, dup_bias: bool) -> Vec<Field> {
    let n = draw_usize(max + 1);
    let mut v = vec![];
    for _ in 0..n {
        let name = NAMES[draw_usize(if dup_bias { 4 } else { NAMES.len() })];
        v.push((name.as_bytes().to_vec(), gen_value()));
    }
    v
}
pub fn gen_body(allow_empty_pieces: bool) -> Body {
    let sizes = [0usize, 1, 5, 63, 64, 300, 16383, 16384, 20000, 65535, 65536, 65537, 70_000];
    let n = if chance(1, 3) { draw_usize(100) } else { sizes[draw_usize(sizes.len())] };
    let data: Vec<u8> = {
        let seed = draw(251) as usize;
        (0..n).map(|i| ((i * 31 + seed) % 251) as u8).collect()
    };
    let mut cuts: Vec<usize> = vec![];
    let k = draw_usize(6);
    for _ in 0..k {
        cuts.push(if n == 0 { 0 } else { draw_usize(n + 1) });
    }
    cuts.sort();
    let mut pieces = vec![];
    let mut last = 0;
    for c in cuts {
        if c > last || allow_empty_pieces {
            pieces.push(c - last);
            last = c;
        }
    }
    if n > last || (allow_empty_pieces && chance(1, 4)) {
        pieces.push(n - last);
    }
    Body { data, pieces, multi: chance(1, 4), abandon_after: None }
}
pub fn gen_exchange(i: usize, allow_empty_pieces: bool) -> Exchange {
    let kind = draw(12);
    let host = *pick(&["example.com", "example.com:8443", "a.b.example", "[::1]:443", "localhost"]);
    let (method, uri, protocol, exp_scheme, exp_path): (String, String, Option<&'static str>, Option<String>, Option<String>) = match kind {
        10 => ("CONNECT".into(), host.to_string(), None, None, None),
        11 => {
            let p = *pick(&["/wt", "/chat?x=1"]);
            ("CONNECT".into(), format!("https://{host}{p}"), Some(*pick(&["webtransport", "websocket", "connect-udp"])), Some("https".into()), Some(p.to_string()))
        }
        _ => {
            let m = *pick(&["GET", "POST", "PUT", "HEAD", "DELETE", "OPTIONS", "PATCH", "PROPFIND"]);
            let scheme = *pick(&["https", "http"]);
            let p = *pick(&["/", "/a/b?x=1&y=2", "/p", "", "/index.html", "/?q", "/%7Euser/a%20b"]);
            let exp_p = if p.is_empty() { "/".to_string() } else { p.to_string() };
            (m.into(), format!("{scheme}://{host}{p}"), None, Some(scheme.into()), Some(exp_p))
        }
    };
    let mut headers = gen_fields(8, chance(1, 2));
    headers.push((b"x-id".to_vec(), i.to_string().into_bytes()));
    let body = if method == "CONNECT" && protocol.is_none() { gen_body(allow_empty_pieces) } else { gen_body(allow_empty_pieces) };
    let req = ReqSpec {
        method,
        uri,
        protocol,
        headers,
        body,
        trailers: if chance(1, 3) { Some(gen_fields(3, false)) } else { None },
        split: chance(1, 3),
        late_split: if chance(1, 4) { 1 + draw_usize(3) } else { 0 },
        exp_scheme,
        exp_authority: host.to_string(),
        exp_path_query: exp_path,
    };
    let split = chance(1, 3);
    let resp = RespSpec {
        status: *pick(&[200u16, 404, 201, 204, 500, 299, 418, 304]),
        headers: gen_fields(8, chance(1, 2)),
        body: gen_body(allow_empty_pieces),
        trailers: if chance(1, 3) { Some(gen_fields(3, false)) } else { None },
        split,
        split_after: if split && chance(1, 2) { 1 + draw_usize(3) } else { 0 },
        early: split && chance(1, 2),
        respond_first: !split && chance(1, 4),
    };
    Exchange { req, resp }
}

fn piece_buf(body: &Body, off: usize, len: usize) -> SimBuf {
    let d = &body.data[off..off + len];
    if body.multi && len >= 2 {
        let c1 = 1 + draw_usize(len - 1);
        let c2 = (c1 + draw_usize(len - c1 + 1)).min(len);
        obs::count("probe.multi_chunk_buf");
        SimBuf::multi(d, &[c1, c2])
    } else {
        SimBuf::one(d.to_vec())
    }
}

macro_rules! tryrec {
    ($rec:expr, $what:expr, $e:expr) => {
        match $e {
            Ok(x) => x,
            Err(e) => {
                $rec.borrow_mut().errors.push(($what.to_string(), format!("{}", e)));
                return;
            }
        }
    };
}

macro_rules! send_body {
    ($rec:expr, $who:expr, $s:expr, $body:expr, $trailers:expr) => {{
        let mut ok = true;
        let mut off = 0;
        for (pi, p) in $body.pieces.iter().enumerate() {
            if $body.abandon_after == Some(pi) {
                obs::count("probe.stream_abandoned_mid_body");
                ok = false;
                break;
            }
            if *p == 0 {
                obs::count("probe.empty_body_piece");
            }
            let b = piece_buf(&$body, off, *p);
            off += p;
            if let Err(e) = $s.send_data(b).await {
                $rec.borrow_mut().errors.push((format!("{}.send_data", $who), e.to_string()));
                ok = false;
                break;
            }
        }
        if ok {
            if let Some(t) = &$trailers {
                if let Err(e) = $s.send_trailers(hm(t)).await {
                    $rec.borrow_mut().errors.push((format!("{}.send_trailers", $who), e.to_string()));
                    ok = false;
                }
            }
        }
        if ok {
            if let Err(e) = $s.finish().await {
                $rec.borrow_mut().errors.push((format!("{}.finish", $who), e.to_string()));
                ok = false;
            }
        }
        ok
    }};
}

/// up to `$max` recv_data calls; evaluates to 0 (body not finished), 1 (clean end seen), 2 (failed)
macro_rules! recv_some {
    ($rec:expr, $who:expr, $s:expr, $got:expr, $max:expr) => {{
        let mut state = 0u8;
        for _ in 0..$max {
            match $s.recv_data().await {
                Ok(Some(d)) => {
                    let v = read_all(d);
                    $got.chunks += 1;
                    $got.body.extend(v);
                }
                Ok(None) => {
                    $got.clean_ends += 1;
                    state = 1;
                    break;
                }
                Err(e) => {
                    $rec.borrow_mut().errors.push((format!("{}.recv_data", $who), e.to_string()));
                    state = 2;
                    break;
                }
            }
        }
        state
    }};
}
macro_rules! recv_trailers_only {
    ($rec:expr, $who:expr, $s:expr, $got:expr) => {{
        match $s.recv_trailers().await {
            Ok(t) => {
                $got.trailers = t.map(|m| fields_of(&m));
                $got.trailers_done = true;
            }
            Err(e) => {
                $rec.borrow_mut().errors.push((format!("{}.recv_trailers", $who), e.to_string()));
            }
        }
    }};
}
/// the rest of a message after `recv_some!` evaluated to `$state`
macro_rules! recv_after {
    ($rec:expr, $who:expr, $s:expr, $got:expr, $state:expr) => {{
        match $state {
            0 => recv_rest!($rec, $who, $s, $got),
            1 => recv_trailers_only!($rec, $who, $s, $got),
            _ => {}
        }
    }};
}
macro_rules! recv_rest {
    ($rec:expr, $who:expr, $s:expr, $got:expr) => {{
        let mut ok = true;
        loop {
            match $s.recv_data().await {
                Ok(Some(d)) => {
                    let v = read_all(d);
                    if v.is_empty() {
                        obs::count("probe.empty_chunk_from_recv_data");
                    }
                    $got.chunks += 1;
                    $got.body.extend(v);
                }
                Ok(None) => {
                    $got.clean_ends += 1;
                    break;
                }
                Err(e) => {
                    $rec.borrow_mut().errors.push((format!("{}.recv_data", $who), e.to_string()));
                    ok = false;
                    break;
                }
            }
        }
        if ok {
            match $s.recv_trailers().await {
                Ok(t) => {
                    $got.trailers = t.map(|m| fields_of(&m));
                    $got.trailers_done = true;
                }
                Err(e) => {
                    $rec.borrow_mut().errors.push((format!("{}.recv_trailers", $who), e.to_string()));
                }
            }
        }
    }};
}

/// one-shot gate opened by the scenario (phase change), awaited by application tasks
#[derive(Default)]
pub struct Gate {
    open: std::cell::Cell<bool>,
    waker: RefCell<Vec<std::task::Waker>>,
}
impl Gate {
    pub fn open(&self) {
        self.open.set(true);
        for w in self.waker.borrow_mut().drain(..) {
            w.wake()
        }
    }
    pub fn is_open(&self) -> bool {
        self.open.get()
    }
    pub fn register(&self, cx: &std::task::Context<'_>) {
        self.waker.borrow_mut().push(cx.waker().clone());
    }
    pub async fn wait(&self) {
        poll_fn(|cx| {
            if self.open.get() {
                std::task::Poll::Ready(())
            } else {
                self.waker.borrow_mut().push(cx.waker().clone());
                std::task::Poll::Pending
            }
        })
        .await
    }
}

#[derive(Clone, Debug, Default)]
pub struct BuildCfg {
    pub max_field_section_size: Option<u64>,
    pub datagram: bool,
    pub webtransport: bool,
    pub extended_connect: bool,
    pub max_wt_sessions: Option<u64>,
}
#[derive(Clone, Debug, Default)]
pub struct Chaos {
    /// server calls shutdown(n) after a delay of k scheduler yields
    pub srv_shutdown: Vec<(u32, usize)>,
    /// client driver calls shutdown after a delay
    pub cli_shutdown: Option<u32>,
}
pub struct Setup {
    pub exchanges: Vec<Exchange>,
    pub grease: [bool; 2],
    pub concurrent: bool,
    pub build: [BuildCfg; 2],
    pub chaos: Chaos,
}
fn timer(k: u32) -> Rc<Gate> {
    let g = Rc::new(Gate::default());
    let g2 = g.clone();
    exec::spawn("timer", async move {
        for _ in 0..k {
            exec::yield_now().await;
        }
        g2.open();
    });
    g
}

pub fn spawn_server(ex: &mut Exec, net: &Shared, rec: &Rc<RefCell<Rec>>, setup: &Rc<Setup>) {
    let conn: SimConn = net::conn(net, SERVER);
    let rec = rec.clone();
    let setup = setup.clone();
    ex.spawn("server", async move {
        let mut b = h3::server::builder();
        b.send_grease(setup.grease[1]);
        let bc = &setup.build[1];
        b.enable_extended_connect(bc.extended_connect);
        b.enable_datagram(bc.datagram);
        b.enable_webtransport(bc.webtransport);
        if let Some(v) = bc.max_field_section_size {
            b.max_field_section_size(v);
        }
        if let Some(v) = bc.max_wt_sessions {
            b.max_webtransport_sessions(v);
        }
        let mut c = tryrec!(rec, "server.build", b.build::<_, SimBuf>(conn).await);
        let mut shutdowns: Vec<(Rc<Gate>, usize)> = setup.chaos.srv_shutdown.iter().map(|(k, n)| (timer(*k), *n)).collect();
        loop {
            // accept, interleaved with the next scheduled shutdown(n) call
            let gate = shutdowns.first().cloned();
            let acc = match accept_or_gate(&mut c, gate.as_ref().map(|(g, _)| g.as_ref())).await {
                Accepted::Gate => {
                    let n = shutdowns.remove(0).1;
                    obs::count("probe.server_shutdown_called");
                    if let Err(e) = c.shutdown(n).await {
                        rec.borrow_mut().server_driver = Some(Err(cout(&e)));
                        return;
                    }
                    continue;
                }
                Accepted::Request(r) => Ok(Some(r)),
                Accepted::Done => Ok(None),
                Accepted::Err(e) => Err(e),
            };
            match acc {
                Ok(Some(resolver)) => {
                    let rec = rec.clone();
                    let setup = setup.clone();
                    exec::spawn("srv-req", async move {
                        let (req, mut s) = tryrec!(rec, "server.resolve_request", resolver.resolve_request().await);
                        let idx: usize = req.headers().get("x-id").and_then(|v| v.to_str().ok()).and_then(|s| s.parse().ok()).unwrap_or(usize::MAX);
                        if idx >= setup.exchanges.len() {
                            rec.borrow_mut().errors.push(("server.resolve_request".into(), format!("request without a known x-id: {:?}", req)));
                            return;
                        }
                        rec.borrow_mut().stream_ids[idx] = Some(s.id().into_inner());
                        let mut got = Got {
                            start: req.method().to_string(),
                            scheme: req.uri().scheme_str().map(|s| s.to_string()),
                            authority: req.uri().authority().map(|a| a.as_str().to_string()),
                            path_query: req.uri().path_and_query().map(|p| p.as_str().to_string()),
                            protocol: req.extensions().get::<Protocol>().map(|p| p.as_str().to_string()),
                            headers: fields_of(req.headers()),
                            ..Default::default()
                        };
                        let spec = setup.exchanges[idx].resp.clone();
                        let resp = {
                            let mut r = http::Response::builder().status(spec.status).body(()).unwrap();
                            *r.headers_mut() = hm(&spec.headers);
                            r
                        };
                        if spec.split {
                            // a stream may be split at any time, also in the middle of the body
                            let pre = recv_some!(rec, "server", s, got, spec.split_after);
                            if spec.split_after > 0 {
                                obs::count("probe.split_after_reading_part_of_the_body");
                            }
                            let (mut tx, mut rx) = s.split();
                            let rec2 = rec.clone();
                            let (gate_tx, gate_rx) = (Rc::new(RefCell::new(spec.early)), Rc::new(RefCell::new(None::<std::task::Waker>)));
                            let (g1, w1) = (gate_tx.clone(), gate_rx.clone());
                            exec::spawn("srv-send-half", async move {
                                // wait until the request has been read unless responding early
                                poll_fn(|cx| {
                                    if *g1.borrow() {
                                        std::task::Poll::Ready(())
                                    } else {
                                        *w1.borrow_mut() = Some(cx.waker().clone());
                                        std::task::Poll::Pending
                                    }
                                })
                                .await;
                                tryrec!(rec2, "server.send_response", tx.send_response(resp).await);
                                let _ = send_body!(rec2, "server", tx, spec.body, spec.trailers);
                            });
                            recv_after!(rec, "server", rx, got, pre);
                            rec.borrow_mut().got_req[idx] = Some(got);
                            *gate_tx.borrow_mut() = true;
                            let w = gate_rx.borrow_mut().take();
                            if let Some(w) = w {
                                w.wake()
                            }
                        } else if spec.respond_first {
                            obs::count("probe.response_sent_before_the_request_body_was_read");
                            tryrec!(rec, "server.send_response", s.send_response(resp).await);
                            let _ = send_body!(rec, "server", s, spec.body, spec.trailers);
                            recv_rest!(rec, "server", s, got);
                            rec.borrow_mut().got_req[idx] = Some(got);
                        } else {
                            recv_rest!(rec, "server", s, got);
                            rec.borrow_mut().got_req[idx] = Some(got);
                            tryrec!(rec, "server.send_response", s.send_response(resp).await);
                            let _ = send_body!(rec, "server", s, spec.body, spec.trailers);
                        }
                    });
                }
                Ok(None) => {
                    rec.borrow_mut().server_driver = Some(Ok(()));
                    return;
                }
                Err(e) => {
                    rec.borrow_mut().server_driver = Some(Err(cout(&e)));
                    return;
                }
            }
        }
    });
}

pub fn spawn_client(ex: &mut Exec, net: &Shared, rec: &Rc<RefCell<Rec>>, setup: &Rc<Setup>, release: &Rc<Gate>) {
    let conn: SimConn = net::conn(net, CLIENT);
    let rec = rec.clone();
    let setup = setup.clone();
    let release = release.clone();
    ex.spawn("client", async move {
        let mut b = h3::client::builder();
        b.send_grease(setup.grease[0]);
        let bc = &setup.build[0];
        b.enable_extended_connect(bc.extended_connect);
        b.enable_datagram(bc.datagram);
        if let Some(v) = bc.max_field_section_size {
            b.max_field_section_size(v);
        }
        let (mut driver, sr) = tryrec!(rec, "client.build", b.build::<_, _, SimBuf>(conn).await);
        let rec_d = rec.clone();
        let cli_shutdown = setup.chaos.cli_shutdown;
        exec::spawn("client-driver", async move {
            if let Some(k) = cli_shutdown {
                let g = timer(k);
                let closed = poll_fn(|cx| {
                    if let std::task::Poll::Ready(e) = driver.poll_close(cx) {
                        return std::task::Poll::Ready(Some(e));
                    }
                    if g.is_open() {
                        return std::task::Poll::Ready(None);
                    }
                    g.register(cx);
                    std::task::Poll::Pending
                })
                .await;
                if let Some(e) = closed {
                    rec_d.borrow_mut().client_driver = Some(cout(&e));
                    return;
                }
                obs::count("probe.client_shutdown_called");
                if let Err(e) = driver.shutdown(0).await {
                    rec_d.borrow_mut().client_driver = Some(cout(&e));
                    return;
                }
            }
            let e = poll_fn(|cx| driver.poll_close(cx)).await;
            rec_d.borrow_mut().client_driver = Some(cout(&e));
        });
        let n = setup.exchanges.len();
        let remaining = Rc::new(RefCell::new(n));
        for i in 0..n {
            let mut sr_i = sr.clone();
            let rec = rec.clone();
            let concurrent = setup.concurrent;
            let setup = setup.clone();
            let remaining = remaining.clone();
            let fut = async move {
                let spec = setup.exchanges[i].req.clone();
                let mut req = http::Request::builder().method(spec.method.as_str()).uri(spec.uri.as_str()).body(()).unwrap();
                *req.headers_mut() = hm(&spec.headers);
                if let Some(p) = spec.protocol {
                    req.extensions_mut().insert(p.parse::<Protocol>().ok().unwrap());
                }
                let mut s = tryrec!(rec, "client.send_request", sr_i.send_request(req).await);
                let mut got = Got::default();
                if spec.split {
                    let (mut tx, mut rx) = s.split();
                    let rec2 = rec.clone();
                    let spec2 = spec.clone();
                    // the connection closes when the last SendRequest is dropped: the sending half keeps one
                    let sr_half = sr_i.clone();
                    exec::spawn("cli-send-half", async move {
                        let _ = send_body!(rec2, "client", tx, spec2.body, spec2.trailers);
                        drop(sr_half);
                    });
                    let resp = tryrec!(rec, "client.recv_response", rx.recv_response().await);
                    got.start = resp.status().as_u16().to_string();
                    got.headers = fields_of(resp.headers());
                    recv_rest!(rec, "client", rx, got);
                } else {
                    if !send_body!(rec, "client", s, spec.body, spec.trailers) {
                        return;
                    }
                    let resp = tryrec!(rec, "client.recv_response", s.recv_response().await);
                    got.start = resp.status().as_u16().to_string();
                    got.headers = fields_of(resp.headers());
                    if spec.late_split > 0 {
                        let pre = recv_some!(rec, "client", s, got, spec.late_split);
                        obs::count("probe.split_after_reading_part_of_the_body");
                        let (tx, mut rx) = s.split();
                        recv_after!(rec, "client", rx, got, pre);
                        drop(tx);
                    } else {
                        recv_rest!(rec, "client", s, got);
                    }
                }
                rec.borrow_mut().got_resp[i] = Some(got);
                *remaining.borrow_mut() -= 1;
                drop(sr_i);
            };
            if concurrent {
                exec::spawn(format!("cli-req{i}"), fut);
            } else {
                fut.await;
            }
        }
        // keep the connection until the scenario says that all exchanges are over (a CONNECTION_CLOSE
        // legitimately discards whatever the peer has not read yet)
        release.wait().await;
        drop(sr);
    });
}

pub struct Outcome {
    pub net: Shared,
    pub rec: Rc<RefCell<Rec>>,
    pub setup: Rc<Setup>,
    pub stop: Stop,
    pub pending: Vec<String>,
    pub panic: Option<exec::PanicInfo>,
    pub steps: u64,
    /// unidirectional streams (side, id) that an endpoint had opened and that carried no byte at the first exact
    /// quiescence - every task parked, every write the transport had pended released again, nothing closed yet
    pub untyped_uni_at_quiescence: Vec<(u8, u64)>,
}

pub fn run_exchanges(setup: Setup, cfg: NetCfg, scarce_credit: bool) -> Outcome {
    let net = Net::new(cfg);
    if scarce_credit {
        let mut n = net.lock().unwrap();
        n.sides[0].bi_credit = Some(draw(2) as u64);
        n.sides[0].uni_credit = Some(draw(4) as u64);
        n.sides[1].uni_credit = Some(draw(4) as u64);
    }
    let n = setup.exchanges.len();
    let rec: Rc<RefCell<Rec>> = Rc::new(RefCell::new(Rec { got_req: vec![None; n], got_resp: vec![None; n], stream_ids: vec![None; n], ..Default::default() }));
    let setup = Rc::new(setup);
    let mut ex = Exec::new();
    ex.max_steps = 60_000;
    ex.spurious = draw(3) == 1;
    spawn_server(&mut ex, &net, &rec, &setup);
    let release = Rc::new(Gate::default());
    spawn_client(&mut ex, &net, &rec, &setup, &release);
    let mut stop = ex.run(&mut NetWorld(net.clone()));
    let mut untyped_uni_at_quiescence = vec![];
    if stop == Stop::Quiescent {
        {
            let n = net.lock().unwrap();
            if n.closes.is_empty() && n.sides.iter().all(|s| s.fault.is_none() && s.pending_close.is_none()) {
                for side in [crate::net::CLIENT, crate::net::SERVER] {
                    for id in &n.sides[side as usize].opened_uni {
                        if let Some(d) = n.dir_ref(*id, side) {
                            if d.sent.is_empty() && !d.tx_stalled {
                                untyped_uni_at_quiescence.push((side, *id));
                            }
                        }
                    }
                }
            }
        }
        // closing phase: the client lets go of its last SendRequest
        obs::ev("phase.release", 0, 0);
        release.open();
        stop = ex.run(&mut NetWorld(net.clone()));
    }
    let pending = ex.pending();
    let panic = ex.panic.clone();
    let steps = ex.steps;
    drop(ex);
    Outcome { net, rec, setup, stop, pending, panic, steps, untyped_uni_at_quiescence }
}

/// Result of `accept_or_gate`
pub enum Accepted {
    Request(h3::server::RequestResolver<SimConn, SimBuf>),
    /// the connection reports that no more requests will come (accept() would return None)
    Done,
    Err(h3::error::ConnectionError),
    /// the gate opened first
    Gate,
}

/// `server::Connection::accept()` spelled out with the poll-based API it is built from, so that the
/// application can interleave `shutdown(n)` calls "at any moment" without cancelling a future in
/// the middle of an internal write (accept() is not documented as cancel-safe).
pub async fn accept_or_gate(c: &mut h3::server::Connection<SimConn, SimBuf>, gate: Option<&Gate>) -> Accepted {
    if gate.is_none() {
        // nothing can interrupt the wait: the application calls accept() itself
        obs::count("probe.accept_called_directly");
        return match c.accept().await {
            Ok(Some(r)) => Accepted::Request(r),
            Ok(None) => Accepted::Done,
            Err(e) => Accepted::Err(e),
        };
    }
    let r = poll_fn(|cx| {
        if let std::task::Poll::Ready(r) = c.poll_accept_request_stream(cx) {
            return std::task::Poll::Ready(Some(r));
        }
        if let Some(g) = gate {
            if g.is_open() {
                return std::task::Poll::Ready(None);
            }
            g.register(cx);
        }
        std::task::Poll::Pending
    })
    .await;
    match r {
        None => Accepted::Gate,
        Some(Err(e)) => Accepted::Err(e),
        Some(Ok(None)) => {
            // as accept() does: always send a last GOAWAY
            match c.shutdown(0).await {
                Ok(()) => Accepted::Done,
                Err(e) => Accepted::Err(e),
            }
        }
        Some(Ok(Some(s))) => {
            let fs = h3::frame::FrameStream::new(h3::stream::BufRecvStream::new(s));
            let r = c.create_resolver(fs);
            // accept() sends the grease frame only once
            c.inner.send_grease_frame = false;
            Accepted::Request(r)
        }
    }
}

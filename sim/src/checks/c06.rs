//! C06 — no peer behaviour makes h3 panic or leaves a call pending for ever.
//! Adversarial scripted peer (grammar- and byte-mutated traffic on request, control, QPACK, push,
//! WebTransport and unknown streams) with one injected fault whose kind and step index are
//! enumerated systematically over the run index; two-stage liveness judgement at exact quiescence.
use super::common::*;
use super::peer::*;
use crate::choice::{chance, draw, draw_bytes, draw_usize, pick};
use crate::exec::{self, Exec, Stop};
use crate::net::{self, ConnFault, Net, NetCfg, NetWorld, Shared, SimBuf, SimConn, CLIENT, SERVER};
use crate::obs;
use crate::refs::frames;
use crate::refs::qpack;
use crate::refs::varint;
use crate::runner::{Check, Meta, RunCtx, RunOut, Violation};
use serde_json::json;
use std::cell::RefCell;
use std::future::poll_fn;
use std::rc::Rc;

pub struct C06;

#[derive(Clone, Debug)]
pub enum Step {
    Write(u64, Vec<u8>),
    Fin(u64),
    Reset(u64, u64),
    /// STOP_SENDING against h3's sending side of this stream
    Stop(u64, u64),
}
pub const FAULT_KINDS: [&str; 11] = ["none", "fin", "reset", "stop_sending", "close_no_error", "close_error_code", "timeout", "transport_internal_error", "transport_undefined", "stream_read_error", "stream_write_error"];
pub const MAX_POS: u64 = 24;

// ---------------------------------------------------------------- mutations

fn mutate_bytes(b: &mut Vec<u8>) {
    if b.is_empty() {
        b.extend(draw_bytes(1 + draw_usize(4)));
        return;
    }
    let n = 1 + draw_usize(3);
    for _ in 0..n {
        let i = draw_usize(b.len().max(1)).min(b.len().saturating_sub(1));
        match draw(5) {
            0 => b[i] ^= 1 << draw(8),
            1 => b[i] = *pick(&[0x00u8, 0xff, 0x80, 0x7f, 0x3f, 0x40, 0xc0]),
            2 => {
                b.insert(i, draw(256) as u8);
            }
            3 => {
                if b.len() > 1 {
                    b.remove(i);
                }
            }
            _ => {
                let extra = draw_bytes(1 + draw_usize(6));
                for (k, x) in extra.into_iter().enumerate() {
                    b.insert((i + k).min(b.len()), x);
                }
            }
        }
    }
}

/// a field section: valid (reference encoder, drawn representations) or mutated at the QPACK level
fn field_section(fields: &[qpack::Field]) -> Vec<u8> {
    let mut b = qpack::encode(fields, qpack::Style::Drawn, |n| draw(n));
    match draw(12) {
        0 => b[0] = 1 + draw(5) as u8, // required insert count != 0: dynamic table reference
        1 => b.push(0x80 | draw(64) as u8), // indexed dynamic
        2 => {
            // static index out of range
            qpack::put_int(&mut b, 6, 0xc0, 99 + draw(200) as u64);
        }
        3 => {
            let k = 1 + draw_usize(b.len().min(6));
            b.truncate(b.len() - k.min(b.len() - 1));
        }
        4 => {
            // over-long integer
            b.push(0xff);
            b.extend(vec![0xff; 9 + draw_usize(4)]);
            b.push(0x7f);
        }
        5 => {
            // huffman literal with bad padding / EOS
            b.push(0x27);
            b.push(0x03);
            b.extend_from_slice(b"abc");
            b.push(0x80 | 4);
            b.extend_from_slice(&[0xff, 0xff, 0xff, draw(256) as u8]);
        }
        6 => b.push(0x10 | draw(16) as u8), // post-base index
        7 => b.push(draw(16) as u8),        // literal with post-base name reference
        8 => mutate_bytes(&mut b),
        _ => {}
    }
    b
}

fn frame_mut(ty: u64, payload: &[u8]) -> Vec<u8> {
    match draw(10) {
        0 => {
            // length field off by +-k or huge
            let len = payload.len() as u64;
            let l2 = match draw(5) {
                0 => len + 1,
                1 => len.saturating_sub(1),
                2 => len + 1 + draw(64) as u64,
                3 => varint::MAX,
                _ => (1u64 << 32) + len,
            };
            let mut v = varint_any_form(ty);
            v.extend(varint_any_form(l2));
            v.extend_from_slice(payload);
            v
        }
        1 => {
            let mut v = frame_forms(ty, payload);
            mutate_bytes(&mut v);
            v
        }
        _ => frame_forms(ty, payload),
    }
}

fn message_fields(request: bool) -> Vec<qpack::Field> {
    let mut f = if request { request_fields(*pick(&["GET", "POST", "CONNECT", "get", ""]), *pick(&["/", "/a?b", "", "*", "relative"])) } else { response_fields(*pick(&[200u16, 404, 100, 999, 0])) };
    match draw(10) {
        0 => f.push(super::peer::f("Upper-Case", "x")),
        1 => f.push(super::peer::f("x-bad", "a\r\nb")),
        2 => f.push(super::peer::f(":unknown", "1")),
        3 => {
            f.remove(0);
        }
        4 => f.push(super::peer::f("host", "other.example")),
        5 => f.insert(0, super::peer::f("x-before-pseudo", "1")),
        6 => f.push(super::peer::f("x-big", &"v".repeat(*pick(&[100usize, 5000, 70000])))),
        7 => f.push((vec![], b"empty-name".to_vec())),
        _ => {}
    }
    f
}

/// a HEADERS frame whose field section has very many (tiny, valid) field lines: the message head followed by
/// `n` one-byte static-table lines ("age: 0"); counts around the limits of the header map h3 builds
fn many_lines_frame(request: bool) -> Vec<u8> {
    let head = if request { request_fields("GET", "/many") } else { response_fields(200) };
    let mut p = qpack::encode_plain(&head);
    let n = *pick(&[24_577usize, 3_000, 24_576, 32_768, 32_769, 50_000]);
    p.extend(std::iter::repeat(0xc0 | 2).take(n));
    obs::count("probe.field_section_with_very_many_lines");
    frames::frame(frames::HEADERS, &p)
}

fn gen_message_stream(request: bool) -> Vec<u8> {
    let mut b = vec![];
    if draw(200) == 199 {
        // rare (the frame is tens of kilobytes): nothing but the many-lines message
        b.extend(many_lines_frame(request));
        if draw(2) == 1 {
            b.extend(frames::frame(frames::DATA, b"x"));
        }
        return b;
    }
    let n = 1 + draw_usize(5);
    for i in 0..n {
        let class = if i == 0 { draw(6) } else { 1 + draw(9) };
        match class {
            0 | 5 => b.extend(frame_mut(frames::HEADERS, &field_section(&message_fields(request)))),
            1 | 2 => b.extend(frame_mut(frames::DATA, &draw_bytes(*pick(&[0usize, 1, 5, 100, 3000])))),
            3 => b.extend(frame_mut(*pick(&UNKNOWN_TYPES), &draw_bytes(draw_usize(20)))),
            4 => b.extend(frame_mut(frames::HEADERS, &field_section(&[super::peer::f("x-trailer", "1")]))),
            6 => b.extend(frame_mut(*pick(&[frames::SETTINGS, frames::GOAWAY, frames::CANCEL_PUSH, frames::MAX_PUSH_ID, frames::PUSH_PROMISE]), &draw_bytes(draw_usize(6)))),
            7 => b.extend(frame_mut(*pick(&frames::H2_TYPES), &draw_bytes(draw_usize(6)))),
            8 => {
                // WebTransport bidi signal in the middle of nowhere
                b.extend(varint_any_form(frames::WT_BIDI_SIGNAL));
                b.extend(varint_any_form(*pick(&[0u64, 4, 1 << 40])));
                b.extend(draw_bytes(draw_usize(10)));
            }
            _ => b.extend(draw_bytes(1 + draw_usize(12))),
        }
    }
    if chance(1, 6) {
        mutate_bytes(&mut b);
    }
    b
}

fn gen_uni_stream(peer_is_client: bool) -> Vec<u8> {
    let kind = draw(9);
    let ty = match kind {
        0 | 1 => frames::ST_CONTROL,
        2 => frames::ST_QPACK_ENC,
        3 => frames::ST_QPACK_DEC,
        4 => frames::ST_PUSH,
        5 => frames::ST_WT_UNI,
        6 => 0x21 + 0x1f * draw(100) as u64,
        _ => *pick(&[0x04u64, 0x3f, 0x41, 0x1234, varint::MAX]),
    };
    let mut b = varint_any_form(ty);
    match kind {
        0 | 1 => {
            let n = 1 + draw_usize(4);
            for i in 0..n {
                match if i == 0 { draw(4) } else { 1 + draw(6) } {
                    0 | 1 => b.extend(frame_mut(frames::SETTINGS, &settings_bytes(&settings_payload_valid()))),
                    2 => b.extend(frame_mut(frames::GOAWAY, &varint_any_form(if peer_is_client { *pick(&[0u64, 1, 5]) } else { *pick(&[0u64, 4, 8, 3, 400]) }))),
                    3 => b.extend(frame_mut(*pick(&[frames::CANCEL_PUSH, frames::MAX_PUSH_ID]), &varint_any_form(some_varint_value()))),
                    4 => b.extend(frame_mut(*pick(&UNKNOWN_TYPES), &draw_bytes(draw_usize(10)))),
                    5 => b.extend(frame_mut(*pick(&[frames::DATA, frames::HEADERS, frames::PUSH_PROMISE, 0x2, 0x6]), &draw_bytes(draw_usize(8)))),
                    _ => b.extend(draw_bytes(1 + draw_usize(8))),
                }
            }
        }
        4 | 5 => {
            b.extend(varint_any_form(some_varint_value()));
            b.extend(draw_bytes(draw_usize(20)));
        }
        _ => b.extend(draw_bytes(draw_usize(24))),
    }
    if chance(1, 8) {
        mutate_bytes(&mut b);
    }
    b
}

pub struct Script {
    pub steps: Vec<Step>,
    pub peer_streams: Vec<u64>,
    pub n_requests: usize,
}

fn gen_script(role_server: bool, net: &Shared) -> Script {
    // streams and their byte strings
    let peer = if role_server { CLIENT } else { SERVER };
    let mut per_stream: Vec<(u64, Vec<Step>)> = vec![];
    let mut n = net.lock().unwrap();
    let nuni = draw_usize(4);
    let mut have_control = false;
    for i in 0..=nuni {
        let id = n.raw_open_next(peer, true);
        let bytes = if i == 0 && chance(3, 4) {
            have_control = true;
            let mut b = varint::encode(frames::ST_CONTROL);
            b.extend(frames::settings(&settings_payload_valid()));
            b
        } else {
            gen_uni_stream(peer == CLIENT)
        };
        let _ = have_control;
        per_stream.push((id, split_steps(id, bytes, chance(1, 5))));
    }
    let n_requests = 1 + draw_usize(3);
    for k in 0..n_requests {
        let id = (k as u64) << 2; // client-initiated bidi 0,4,8
        if role_server {
            n.raw_open(id);
        }
        let bytes = gen_message_stream(role_server);
        per_stream.push((id, split_steps(id, bytes, chance(7, 8))));
    }
    drop(n);
    // interleave, keeping per-stream order
    let peer_streams: Vec<u64> = per_stream.iter().map(|(id, _)| *id).collect();
    let mut steps = vec![];
    while per_stream.iter().any(|(_, s)| !s.is_empty()) {
        let live: Vec<usize> = per_stream.iter().enumerate().filter(|(_, (_, s))| !s.is_empty()).map(|(i, _)| i).collect();
        let i = live[draw_usize(live.len())];
        steps.push(per_stream[i].1.remove(0));
    }
    Script { steps, peer_streams, n_requests }
}

fn split_steps(id: u64, bytes: Vec<u8>, fin: bool) -> Vec<Step> {
    let mut v = vec![];
    let k = 1 + draw_usize(3);
    let mut cuts: Vec<usize> = (0..k - 1).map(|_| draw_usize(bytes.len() + 1)).collect();
    cuts.sort();
    let mut last = 0;
    for c in cuts {
        if c > last {
            v.push(Step::Write(id, bytes[last..c].to_vec()));
            last = c;
        }
    }
    if bytes.len() > last {
        v.push(Step::Write(id, bytes[last..].to_vec()));
    }
    if fin {
        v.push(Step::Fin(id));
    }
    v
}

// ---------------------------------------------------------------- applications

#[derive(Default)]
struct AppRec {
    calls_failed: u32,
    calls_ok: u32,
    driver_done: bool,
}

fn spawn_server_app(ex: &mut Exec, net: &Shared, rec: &Rc<RefCell<AppRec>>) {
    let conn: SimConn = net::conn(net, SERVER);
    let rec = rec.clone();
    ex.spawn("conn:server-accept", async move {
        let mut b = h3::server::builder();
        b.send_grease(draw(2) == 1);
        b.enable_webtransport(draw(2) == 1);
        b.max_field_section_size(*pick(&[(1u64 << 62) - 1, 1000, 60]));
        let Ok(mut c) = b.build::<_, SimBuf>(conn).await else {
            rec.borrow_mut().driver_done = true;
            return;
        };
        let mut k = 0;
        loop {
            match c.accept().await {
                Ok(Some(resolver)) => {
                    let rec = rec.clone();
                    let split = draw(3) == 1;
                    k += 1;
                    exec::spawn(format!("stream:srv-req{k}"), async move {
                        let Ok((_req, mut s)) = resolver.resolve_request().await else {
                            rec.borrow_mut().calls_failed += 1;
                            return;
                        };
                        let resp = http::Response::builder().status(200).header("x-r", "1").body(()).unwrap();
                        if split {
                            let (mut tx, mut rx) = s.split();
                            let rec2 = rec.clone();
                            exec::spawn(format!("stream:srv-send{k}"), async move {
                                let ok = async {
                                    tx.send_response(resp).await?;
                                    tx.send_data(SimBuf::one(vec![7u8; 3000])).await?;
                                    tx.send_data(SimBuf::one(vec![])).await?;
                                    tx.send_trailers(hm(&[super::peer::f("x-t", "1")])).await?;
                                    tx.finish().await
                                }
                                .await;
                                if ok.is_err() {
                                    rec2.borrow_mut().calls_failed += 1
                                } else {
                                    rec2.borrow_mut().calls_ok += 1
                                }
                            });
                            loop {
                                match rx.recv_data().await {
                                    Ok(Some(_)) => {}
                                    Ok(None) => {
                                        if rx.recv_trailers().await.is_err() {
                                            rec.borrow_mut().calls_failed += 1
                                        }
                                        break;
                                    }
                                    Err(_) => {
                                        rec.borrow_mut().calls_failed += 1;
                                        break;
                                    }
                                }
                            }
                        } else {
                            let r = async {
                                while s.recv_data().await?.is_some() {}
                                s.recv_trailers().await?;
                                s.send_response(resp).await?;
                                s.send_data(SimBuf::one(vec![9u8; 500])).await?;
                                s.finish().await
                            }
                            .await;
                            if r.is_err() {
                                rec.borrow_mut().calls_failed += 1;
                                // what the application does with the handle after an error is drawn
                                match draw(3) {
                                    0 => {}
                                    1 => {
                                        let _ = s.finish().await;
                                    }
                                    _ => {
                                        let _ = s.send_data(SimBuf::one(vec![1u8; 10])).await;
                                    }
                                }
                            } else {
                                rec.borrow_mut().calls_ok += 1
                            }
                        }
                    });
                }
                Ok(None) | Err(_) => {
                    rec.borrow_mut().driver_done = true;
                    return;
                }
            }
        }
    });
}

fn spawn_client_app(ex: &mut Exec, net: &Shared, rec: &Rc<RefCell<AppRec>>, n_requests: usize) {
    let conn: SimConn = net::conn(net, CLIENT);
    let rec = rec.clone();
    ex.spawn("conn:client-build", async move {
        let mut b = h3::client::builder();
        b.send_grease(draw(2) == 1);
        b.max_field_section_size(*pick(&[(1u64 << 62) - 1, 1000, 60]));
        let Ok((mut driver, sr)) = b.build::<_, _, SimBuf>(conn).await else {
            rec.borrow_mut().driver_done = true;
            return;
        };
        let rec_d = rec.clone();
        exec::spawn("conn:client-driver", async move {
            let _ = poll_fn(|cx| driver.poll_close(cx)).await;
            rec_d.borrow_mut().driver_done = true;
        });
        for k in 0..n_requests {
            let mut sr_k = sr.clone();
            let rec = rec.clone();
            let split = draw(3) == 1;
            exec::spawn(format!("stream:cli-req{k}"), async move {
                let req = http::Request::builder().method("POST").uri("https://example.com/c06").body(()).unwrap();
                let Ok(mut s) = sr_k.send_request(req).await else {
                    rec.borrow_mut().calls_failed += 1;
                    return;
                };
                if split {
                    let (mut tx, mut rx) = s.split();
                    let rec2 = rec.clone();
                    let keep = sr_k.clone();
                    exec::spawn(format!("stream:cli-send{k}"), async move {
                        let r = async {
                            tx.send_data(SimBuf::one(vec![3u8; 2000])).await?;
                            tx.finish().await
                        }
                        .await;
                        if r.is_err() {
                            rec2.borrow_mut().calls_failed += 1
                        }
                        drop(keep);
                    });
                    let r = async {
                        rx.recv_response().await?;
                        while rx.recv_data().await?.is_some() {}
                        rx.recv_trailers().await
                    }
                    .await;
                    if r.is_err() {
                        rec.borrow_mut().calls_failed += 1
                    } else {
                        rec.borrow_mut().calls_ok += 1
                    }
                } else {
                    let r = async {
                        s.send_data(SimBuf::one(vec![3u8; 700])).await?;
                        s.finish().await?;
                        s.recv_response().await?;
                        while s.recv_data().await?.is_some() {}
                        s.recv_trailers().await
                    }
                    .await;
                    if r.is_err() {
                        rec.borrow_mut().calls_failed += 1;
                        if draw(2) == 1 {
                            let _ = s.finish().await;
                        }
                    } else {
                        rec.borrow_mut().calls_ok += 1
                    }
                }
                drop(sr_k);
            });
        }
        // the last SendRequest is kept by this task until the connection is over (stage 2)
        std::future::pending::<()>().await;
        drop(sr);
    });
}

// ---------------------------------------------------------------- the run

fn inject(net: &Shared, kind: &str, role_server: bool, script: &Script) {
    let h3side = if role_server { SERVER } else { CLIENT };
    let peer = 1 - h3side;
    let mut n = net.lock().unwrap();
    match kind {
        "fin" => {
            let id = *pick(&script.peer_streams);
            n.raw_fin(id, peer);
            obs::count("fault.fin_injected");
        }
        "reset" => {
            let id = *pick(&script.peer_streams);
            n.raw_reset(id, peer, *pick(&[0x10cu64, 0, 0x100, varint::MAX]));
            obs::count("fault.reset_injected");
        }
        "stop_sending" => {
            // against a stream h3 sends on: its control / QPACK streams or a request stream
            let own: Vec<u64> = n.streams_of(h3side);
            if !own.is_empty() {
                let id = own[draw_usize(own.len())];
                n.raw_stop(id, peer, *pick(&[0x10cu64, 0, 0x103]));
                obs::count("fault.stop_sending_injected");
            }
        }
        "close_no_error" => {
            n.raw_close(peer, 0x100);
            obs::count("fault.peer_close_no_error");
        }
        "close_error_code" => {
            n.raw_close(peer, *pick(&[0x101u64, 0x0, 0x10c, 0x3fff_ffff]));
            obs::count("fault.peer_close_error_code");
        }
        "timeout" => {
            n.set_fault(h3side, ConnFault::Timeout);
            obs::count("fault.timeout");
        }
        "transport_internal_error" => {
            n.set_fault(h3side, ConnFault::Internal("simulated".into()));
            obs::count("fault.transport_internal_error");
        }
        "transport_undefined" => {
            n.set_fault(h3side, ConnFault::Undefined);
            obs::count("fault.transport_undefined");
        }
        "stream_read_error" => {
            let id = *pick(&script.peer_streams);
            let d = n.dir(id, peer);
            d.inject_read_err = true;
            if let Some(w) = d.rx_waker.take() {
                w.wake()
            }
        }
        "stream_write_error" => {
            let own: Vec<u64> = n.streams_of(h3side);
            if !own.is_empty() {
                let id = own[draw_usize(own.len())];
                n.dir(id, h3side).inject_write_err = true;
            }
        }
        _ => {}
    }
}

/// The byte-stream side of the public API: `h3::stream::BufRecvStream` (what h3-webtransport's stream types read
/// through) over a SimQuic stream that the peer fills with drawn bytes in drawn chunks and ends with FIN, RESET, a
/// connection close, or not at all. The reader uses one of the three read interfaces - the quic::RecvStream trait,
/// tokio's AsyncRead with one ReadBuf kept across calls the way read_exact keeps it (messages of drawn lengths read
/// back to back), or the futures AsyncRead with a slice of drawn size. No call may panic; once the peer has ended
/// the stream or closed the connection every read must have completed, and what was read is a prefix of what was
/// written (everything, if the stream ended with FIN).
fn run_raw_stream_reader(ctx: &RunCtx) -> RunOut {
    use h3::stream::BufRecvStream;
    let cfg = NetCfg::drawn();
    let net = Net::new(cfg);
    let total = if chance(1, 6) { 200 + draw_usize(800) } else { draw_usize(60) };
    let bytes = draw_bytes(total);
    // 0 FIN, 1 RESET, 2 connection close, 3 left open (then the connection is closed in stage 2)
    let ending = draw(4);
    {
        let mut n = net.lock().unwrap();
        n.raw_open(2);
        n.raw_write(2, CLIENT, &bytes);
        match ending {
            0 => n.raw_fin(2, CLIENT),
            1 => n.raw_reset(2, CLIENT, *pick(&[0x10cu64, 0, 0x100])),
            _ => {}
        }
    }
    let recv: net::SimRecv = net::recv_handle(&net, 2, SERVER);
    let got: Rc<RefCell<(Vec<u8>, Option<String>)>> = Default::default();
    let mode = draw(3);
    let mut ex = Exec::new();
    ex.max_steps = 40_000;
    ex.spurious = draw(3) == 1;
    {
        let got = got.clone();
        ex.spawn("raw-reader", async move {
            let mut s: BufRecvStream<net::SimRecv, SimBuf> = BufRecvStream::new(recv);
            match mode {
                1 => {
                    obs::count("probe.raw_stream_read_as_read_exact_does");
                    // messages of drawn lengths, each read into one ReadBuf that is kept until it is full
                    loop {
                        let want = 1 + draw_usize(24);
                        let mut storage = vec![0u8; want];
                        let mut filled = 0usize;
                        while filled < want {
                            let r = poll_fn(|cx| {
                                let mut rb = tokio::io::ReadBuf::new(&mut storage);
                                rb.set_filled(filled);
                                match tokio::io::AsyncRead::poll_read(std::pin::Pin::new(&mut s), cx, &mut rb) {
                                    std::task::Poll::Ready(Ok(())) => std::task::Poll::Ready(Ok(rb.filled().len())),
                                    std::task::Poll::Ready(Err(e)) => std::task::Poll::Ready(Err(e)),
                                    std::task::Poll::Pending => std::task::Poll::Pending,
                                }
                            })
                            .await;
                            match r {
                                Ok(n) if n == filled => {
                                    got.borrow_mut().0.extend_from_slice(&storage[..filled]);
                                    got.borrow_mut().1 = Some("end".into());
                                    return;
                                }
                                Ok(n) if n < filled || n > want => {
                                    got.borrow_mut().1 = Some(format!("BROKEN fill level went from {filled} to {n} (capacity {want})"));
                                    return;
                                }
                                Ok(n) => filled = n,
                                Err(e) => {
                                    got.borrow_mut().0.extend_from_slice(&storage[..filled]);
                                    got.borrow_mut().1 = Some(format!("error: {e}"));
                                    return;
                                }
                            }
                        }
                        got.borrow_mut().0.extend_from_slice(&storage);
                    }
                }
                2 => {
                    let mut storage = vec![0u8; 1 + draw_usize(24)];
                    loop {
                        match poll_fn(|cx| futures_util::io::AsyncRead::poll_read(std::pin::Pin::new(&mut s), cx, &mut storage)).await {
                            Ok(0) => {
                                got.borrow_mut().1 = Some("end".into());
                                return;
                            }
                            Ok(n) if n > storage.len() => {
                                got.borrow_mut().1 = Some(format!("BROKEN read reported {n} bytes into a slice of {}", storage.len()));
                                return;
                            }
                            Ok(n) => got.borrow_mut().0.extend_from_slice(&storage[..n]),
                            Err(e) => {
                                got.borrow_mut().1 = Some(format!("error: {e}"));
                                return;
                            }
                        }
                    }
                }
                _ => loop {
                    match poll_fn(|cx| h3::quic::RecvStream::poll_data(&mut s, cx)).await {
                        Ok(Some(b)) => got.borrow_mut().0.extend_from_slice(&b),
                        Ok(None) => {
                            got.borrow_mut().1 = Some("end".into());
                            return;
                        }
                        Err(e) => {
                            got.borrow_mut().1 = Some(format!("error: {e}"));
                            return;
                        }
                    }
                },
            }
        });
    }
    let mut stop = ex.run(&mut NetWorld(net.clone()));
    let stage1_done = got.borrow().1.is_some();
    if stop == Stop::Quiescent && (ending >= 2) {
        net.lock().unwrap().set_fault(SERVER, net::ConnFault::AppClose(0x100));
        obs::count("fault.peer_close_no_error");
        stop = ex.run(&mut NetWorld(net.clone()));
    }
    if let Some(p) = &ex.panic {
        if p.in_harness() {
            return RunOut { harness_error: Some(format!("harness panic: {} at {}", p.msg, p.loc)), ..Default::default() };
        }
        return RunOut::fail(Violation::new("C06.panic", format!("h3 panicked in task {}: {} at {} (raw stream of {total} bytes read through interface {mode})", p.task, p.msg, p.loc)).fact("at", p.loc.rsplit('/').next().unwrap_or("")));
    }
    if stop == Stop::StepCap {
        return RunOut::fail(Violation::new("C06.step_cap", "no quiescence (raw stream reader)".to_string()));
    }
    let g = got.borrow();
    if ending < 2 && !stage1_done {
        return RunOut::fail(Violation::new("C06.stream_call_pending_forever", format!("the peer ended the raw stream ({}) and everything was delivered, but the read through interface {mode} is still pending; {} of {total} bytes read", if ending == 0 { "FIN" } else { "RESET" }, g.0.len())).fact("role", "raw_stream").fact("stage", "1"));
    }
    let Some(end) = &g.1 else {
        return RunOut::fail(Violation::new("C06.call_pending_after_connection_close", format!("the connection was closed, the read of the raw stream through interface {mode} is still pending; {} of {total} bytes read", g.0.len())).fact("role", "raw_stream").fact("stage", "2"));
    };
    if end.starts_with("BROKEN") {
        return RunOut::fail(Violation::new("C06.read_interface_contract", format!("{end} (interface {mode})")).fact("role", "raw_stream"));
    }
    if !bytes.starts_with(&g.0) || (ending == 0 && (g.0.len() != total || end != "end")) {
        return RunOut::fail(Violation::new("C06.raw_stream_bytes_wrong", format!("peer wrote {total} bytes and {}; the reader (interface {mode}) got {} bytes ({}) and then {end}", (["finished", "reset", "left the stream open", "left the stream open"])[ending as usize], g.0.len(), if bytes.starts_with(&g.0) { "a prefix" } else { "different bytes" })).fact("role", "raw_stream"));
    }
    let mut out = RunOut::ok(true);
    if ctx.want_sample {
        out.sample = Some(json!({"scenario": "raw stream read through BufRecvStream", "bytes": total, "ending": (["FIN", "RESET", "connection close", "open, then connection close"])[ending as usize], "interface": (["quic::RecvStream", "tokio AsyncRead (ReadBuf kept across calls)", "futures AsyncRead"])[mode as usize], "read": g.0.len(), "outcome": end}));
    }
    out
}

impl Check for C06 {
    fn id(&self) -> &'static str {
        "C06"
    }
    fn meta(&self) -> Meta {
        Meta {
            level: "fault_enumeration",
            rule: "adversarial peer scripts (1-5 unidirectional streams of every type and 1-3 request/response streams built from valid traffic plus grammar mutations - length fields off by +-1/+-k/huge, non-minimal and truncated varints, swapped types, QPACK-level mutations: dynamic references, out-of-range indices, truncated and over-long integers, bad Huffman padding, malformed messages, one run in two hundred a field section with 3 000 to 50 000 one-byte field lines - and byte mutations; steps of all streams interleaved) x one injected fault whose kind (FIN, RESET, STOP_SENDING, close NO_ERROR / error code, timeout, transport internal / undefined error, stream read / write error, none) and step index (0..23) are enumerated systematically over the run index x drawn chunking, task order, spurious polls, both roles, whole and split streams; liveness judged in two stages at exact quiescence (stage 1: peer ends/aborts every stream, grants all credit, connection open -> every stream call completes; stage 2: connection closed -> every future completes); one run in sixteen instead reads a raw stream through h3::stream::BufRecvStream (what WebTransport streams are read through): drawn bytes in drawn chunks ended by FIN, RESET, a connection close or nothing, read through the quic::RecvStream trait, tokio's AsyncRead with one ReadBuf kept across calls as read_exact keeps it, or the futures AsyncRead - no panic, every read completes once the stream or the connection has ended, what was read is a prefix of (with FIN: all of) what was written; non-trivial = at least 3 script steps executed and >= 2 chunk deliveries; distinct = distinct schedule signatures",
            real: &["all of h3 (client, server, connection, frame, stream, buf, proto, qpack)"],
            stub: &["QUIC transport (SimQuic)", "executor (simexec)", "peer (adversarial script)", "applications (documented call patterns, drawn behaviour after an error)"],
            assumptions: &["transport contract: non-empty chunks, valid stream ids", "which error is returned is not judged here (C02-C04, C07)"],
            quick_runs: 1_500_000,
            thorough_runs: 60_000_000,
        }
    }
    fn run(&self, ctx: &RunCtx) -> RunOut {
        // one run in sixteen: the raw byte-stream interfaces (what WebTransport streams are read through)
        if draw(16) == 15 {
            return run_raw_stream_reader(ctx);
        }
        let kind = FAULT_KINDS[(ctx.run % FAULT_KINDS.len() as u64) as usize];
        let pos = ((ctx.run / FAULT_KINDS.len() as u64) % MAX_POS) as usize;
        let role_server = draw(2) == 0;
        let mut cfg = NetCfg::drawn();
        cfg.auto_grant = true;
        let net = Net::new(cfg);
        if chance(1, 4) {
            let mut n = net.lock().unwrap();
            n.sides[0].bi_credit = Some(draw(3) as u64);
            n.sides[0].uni_credit = Some(draw(5) as u64);
            n.sides[1].uni_credit = Some(draw(5) as u64);
        }
        let script = gen_script(role_server, &net);
        let rec: Rc<RefCell<AppRec>> = Default::default();
        let mut ex = Exec::new();
        ex.max_steps = 40_000;
        ex.spurious = draw(3) == 1;
        if role_server {
            spawn_server_app(&mut ex, &net, &rec);
        } else {
            spawn_client_app(&mut ex, &net, &rec, script.n_requests);
        }
        // the scripted peer: one step per scheduler turn
        let h3side = if role_server { SERVER } else { CLIENT };
        let peer = 1 - h3side;
        {
            let net = net.clone();
            let steps = script.steps.clone();
            let script2 = Script { steps: vec![], peer_streams: script.peer_streams.clone(), n_requests: script.n_requests };
            let fault_kind = kind;
            ex.spawn("peer", async move {
                for (i, st) in steps.iter().enumerate() {
                    if i == pos {
                        obs::ev("inject", i as u64 * 4, 0);
                        inject(&net, fault_kind, role_server, &script2);
                    }
                    {
                        let mut n = net.lock().unwrap();
                        match st {
                            Step::Write(id, b) => n.raw_write(*id, peer, b),
                            Step::Fin(id) => n.raw_fin(*id, peer),
                            Step::Reset(id, c) => n.raw_reset(*id, peer, *c),
                            Step::Stop(id, c) => n.raw_stop(*id, peer, *c),
                        }
                    }
                    obs::count("probe.script_step");
                    exec::yield_now().await;
                }
                if pos >= steps.len() {
                    inject(&net, fault_kind, role_server, &script2);
                }
            });
        }
        let fail = |v: Violation| RunOut::fail(v.fact("role", if role_server { "server" } else { "client" }));
        let check_panic = |ex: &Exec| -> Option<RunOut> {
            ex.panic.as_ref().map(|p| {
                if p.in_harness() {
                    RunOut { harness_error: Some(format!("harness panic: {} at {}", p.msg, p.loc)), ..Default::default() }
                } else {
                    RunOut::fail(Violation::new("C06.panic", format!("h3 panicked in task {}: {} at {} (fault {kind} at step {pos})", p.task, p.msg, p.loc)).fact("at", p.loc.rsplit('/').next().unwrap_or("")))
                }
            })
        };
        // stage 0
        let stop = ex.run(&mut NetWorld(net.clone()));
        if let Some(r) = check_panic(&ex) {
            return r;
        }
        if stop == Stop::StepCap {
            return fail(Violation::new("C06.step_cap", format!("no quiescence within {} steps (possible livelock); pending {:?}", ex.max_steps, ex.pending())).fact("stage", "0"));
        }
        // stage 1: the peer finishes or resets each of its sending sides, reads or stops everything h3 sends, grants credit
        obs::ev("phase.stage1", 0, 0);
        {
            let mut n = net.lock().unwrap();
            let ids: Vec<(u64, u8)> = n.dirs.keys().cloned().collect();
            for (id, sender) in ids {
                if sender == peer {
                    let d = n.dir(id, peer);
                    d.held = false;
                    if !d.fin_sent && d.reset_sent.is_none() {
                        if draw(2) == 0 {
                            n.raw_fin(id, peer)
                        } else {
                            n.raw_reset(id, peer, 0x10c)
                        }
                    }
                } else {
                    let d = n.dir(id, sender);
                    d.tx_stalled = false;
                    if draw(3) == 2 {
                        n.raw_stop(id, peer, 0x10c);
                    }
                }
            }
            n.grant(h3side, true, 100);
            n.grant(h3side, false, 100);
            // streams the client application opens later need an ended peer side too
            for k in 0..8u64 {
                let id = k << 2;
                if !role_server {
                    let d = n.dir(id, SERVER);
                    if !d.fin_sent && d.reset_sent.is_none() {
                        d.fin_sent = true;
                    }
                }
            }
        }
        let stop = ex.run(&mut NetWorld(net.clone()));
        if let Some(r) = check_panic(&ex) {
            return r;
        }
        if stop == Stop::StepCap {
            return fail(Violation::new("C06.step_cap", format!("no quiescence within {} steps (possible livelock); pending {:?}", ex.max_steps, ex.pending())).fact("stage", "1"));
        }
        let stuck: Vec<String> = ex.pending().into_iter().filter(|t| t.starts_with("stream:")).collect();
        if !stuck.is_empty() {
            let progressed = ex.sweep();
            let kindname = stuck[0].trim_start_matches("stream:").trim_end_matches(char::is_numeric).to_string();
            return fail(
                Violation::new("C06.stream_call_pending_forever", format!("after the peer ended or aborted every stream (connection still open) these calls are still pending: {:?}; a sweep re-poll made progress on {:?} (lost wake-up if non-empty); fault {kind} at step {pos}", stuck, progressed))
                    .fact("task", kindname)
                    .fact("lost_wakeup", !progressed.is_empty()),
            );
        }
        // stage 2: the connection goes away
        obs::ev("phase.stage2", 0, 0);
        {
            let mut n = net.lock().unwrap();
            match draw(4) {
                0 => n.raw_close(peer, 0x100),
                1 => n.raw_close(peer, 0x101),
                2 => n.set_fault(h3side, ConnFault::Timeout),
                _ => n.set_fault(h3side, ConnFault::Undefined),
            }
        }
        let stop = ex.run(&mut NetWorld(net.clone()));
        if let Some(r) = check_panic(&ex) {
            return r;
        }
        if stop == Stop::StepCap {
            return fail(Violation::new("C06.step_cap", "no quiescence after the connection was closed".to_string()).fact("stage", "2"));
        }
        let stuck: Vec<String> = ex.pending().into_iter().filter(|t| t != "conn:client-build").collect();
        if !stuck.is_empty() {
            let progressed = ex.sweep();
            return fail(
                Violation::new("C06.call_pending_after_connection_close", format!("the connection is closed but these h3 futures never completed: {:?}; sweep progress {:?}; fault {kind} at step {pos}", stuck, progressed))
                    .fact("task", stuck[0].trim_end_matches(char::is_numeric))
                    .fact("lost_wakeup", !progressed.is_empty()),
            );
        }
        ex.shutdown();
        if let Some(r) = check_panic(&ex) {
            return r;
        }
        let nontrivial = obs::counter("probe.script_step") >= 3 && obs::counter("net.chunk_delivered") >= 2;
        let mut out = RunOut::ok(nontrivial);
        if ctx.want_sample {
            let r = rec.borrow();
            out.sample = Some(json!({"role": if role_server {"server"} else {"client"}, "fault": kind, "fault_step": pos, "script_steps": script.steps.len(), "script_head": script.steps.iter().take(6).map(|s| match s { Step::Write(id, b) => format!("write {id} [{}]", b.iter().take(24).map(|x| format!("{x:02x}")).collect::<Vec<_>>().join(" ")), other => format!("{other:?}") }).collect::<Vec<_>>(), "app_calls_ok": r.calls_ok, "app_calls_failed": r.calls_failed}));
        }
        out
    }
}

//! C01 — end-to-end message fidelity for every message and transport behaviour.
use super::e2e::*;
use super::peer::*;
use crate::choice::{chance, draw, draw_usize};
use crate::exec::Stop;
use crate::net::{NetCfg, CLIENT, SERVER};
use crate::obs;
use crate::refs::frames;
use crate::refs::qpack::{self, Field};
use crate::runner::{Check, Meta, RunCtx, RunOut, Violation};
use serde_json::json;

pub struct C01;

fn cmp_fields(what: &str, sent: &[Field], got: &[Field], ignore_xid: bool) -> Result<(), String> {
    let mut s = by_name(sent);
    let mut g = by_name(got);
    if ignore_xid {
        s.remove(&b"x-id"[..]);
        g.remove(&b"x-id"[..]);
    }
    if s != g {
        return Err(format!("{what}: per-name value sequences differ: sent {:?} got {:?}", show(sent), show(got)));
    }
    Ok(())
}
pub fn show(f: &[Field]) -> Vec<(String, String)> {
    f.iter().map(|(n, v)| (String::from_utf8_lossy(n).into_owned(), String::from_utf8_lossy(v).into_owned())).collect()
}

fn cmp_body(what: &str, sent: &Body, got: &Got) -> Result<(), (String, String)> {
    if got.body != sent.data {
        let kind = if sent.data.starts_with(&got.body) {
            "truncated"
        } else if got.body.starts_with(&sent.data) {
            "surplus"
        } else {
            "corrupted"
        };
        let first_diff = got.body.iter().zip(sent.data.iter()).position(|(a, b)| a != b).unwrap_or(got.body.len().min(sent.data.len()));
        return Err((format!("body_{kind}"), format!("{what}: body differs ({kind}): sent {} bytes in pieces {:?}, got {} bytes, first difference at offset {first_diff}", sent.data.len(), sent.pieces, got.body.len())));
    }
    if got.clean_ends != 1 {
        return Err(("end_indication".into(), format!("{what}: {} clean end-of-body indications (expected exactly 1)", got.clean_ends)));
    }
    Ok(())
}

/// decode the first HEADERS frame h3 wrote on a stream direction with the reference codecs
pub fn wire_first_headers(bytes: &[u8]) -> Result<Vec<Field>, String> {
    let (fr, _) = frames::segment(bytes);
    let h = fr.iter().find(|f| !frames::is_reserved(f.ty)).ok_or("no frame on the wire")?;
    if h.ty != frames::HEADERS {
        return Err(format!("first frame on the wire has type {:#x}", h.ty));
    }
    qpack::decode(&h.payload).map_err(|e| format!("reference QPACK decoder rejects the field section: {e}"))
}

pub fn judge(out: &Outcome) -> Result<(), Violation> {
    let rec = out.rec.borrow();
    let setup = &out.setup;
    if let Some((call, e)) = rec.errors.first() {
        let kind = if e.contains("H3_FRAME_UNEXPECTED") {
            "H3_FRAME_UNEXPECTED"
        } else if e.contains("H3_FRAME_ERROR") {
            "H3_FRAME_ERROR"
        } else if e.contains("H3_") || e.contains("QPACK_") {
            "other_h3_code"
        } else {
            "other"
        };
        return Err(Violation::new("C01.call_failed", format!("{call} failed: {e}; all errors: {:?}", rec.errors)).fact("call", call).fact("error", kind));
    }
    if out.stop != Stop::Quiescent {
        return Err(Violation::new("C01.step_cap", format!("no quiescence within the step cap; pending {:?}", out.pending)));
    }
    if !out.pending.is_empty() {
        return Err(Violation::new("C01.stuck_call", format!("tasks still pending at quiescence: {:?}", out.pending)).fact("first", out.pending[0].trim_end_matches(char::is_numeric)));
    }
    for (i, x) in setup.exchanges.iter().enumerate() {
        let got = rec.got_req[i].as_ref().ok_or_else(|| Violation::new("C01.request_not_delivered", format!("request {i} never reached the server application")))?;
        let mk = |rule: &str, d: String| Violation::new(rule, d).fact("dir", "request");
        if got.start != x.req.method {
            return Err(mk("C01.method", format!("method: sent {} got {}", x.req.method, got.start)));
        }
        if got.scheme != x.req.exp_scheme || got.authority.as_deref() != Some(x.req.exp_authority.as_str()) || got.path_query != x.req.exp_path_query {
            return Err(mk("C01.target", format!("target: sent {} -> expected scheme {:?} authority {:?} path {:?}; got {:?} {:?} {:?}", x.req.uri, x.req.exp_scheme, x.req.exp_authority, x.req.exp_path_query, got.scheme, got.authority, got.path_query)));
        }
        if got.protocol.as_deref() != x.req.protocol {
            return Err(mk("C01.protocol", format!(":protocol: sent {:?} got {:?}", x.req.protocol, got.protocol)));
        }
        cmp_fields("request headers", &x.req.headers, &got.headers, false).map_err(|d| mk("C01.headers", d))?;
        cmp_body("request", &x.req.body, got).map_err(|(k, d)| mk(&format!("C01.{k}"), d))?;
        if got.trailers.as_ref().map(|t| by_name(t)) != x.req.trailers.as_ref().map(|t| by_name(t)) || !got.trailers_done {
            return Err(mk("C01.trailers", format!("request trailers: sent {:?} got {:?}", x.req.trailers.as_ref().map(|t| show(t)), got.trailers.as_ref().map(|t| show(t)))));
        }
        let got = rec.got_resp[i].as_ref().ok_or_else(|| Violation::new("C01.response_not_delivered", format!("response {i} never reached the client application")))?;
        let mk = |rule: &str, d: String| Violation::new(rule, d).fact("dir", "response");
        if got.start != x.resp.status.to_string() {
            return Err(mk("C01.status", format!("status: sent {} got {}", x.resp.status, got.start)));
        }
        cmp_fields("response headers", &x.resp.headers, &got.headers, false).map_err(|d| mk("C01.headers", d))?;
        cmp_body("response", &x.resp.body, got).map_err(|(k, d)| mk(&format!("C01.{k}"), d))?;
        if got.trailers.as_ref().map(|t| by_name(t)) != x.resp.trailers.as_ref().map(|t| by_name(t)) || !got.trailers_done {
            return Err(mk("C01.trailers", format!("response trailers: sent {:?} got {:?}", x.resp.trailers.as_ref().map(|t| show(t)), got.trailers.as_ref().map(|t| show(t)))));
        }
    }
    // no connection error on either side other than the clean shutdown, no error-driven close
    let n = out.net.lock().unwrap();
    for (side, code, reason) in &n.closes {
        if *code != 0x100 {
            return Err(Violation::new("C01.connection_closed_with_error", format!("side {side} closed the connection with {:#x} ({reason})", code)));
        }
    }
    match &rec.client_driver {
        Some(c) if c.to_string().contains("H3_NO_ERROR") => {}
        other => return Err(Violation::new("C01.client_driver_outcome", format!("client driver ended with {:?}", other.as_ref().map(|c| c.to_string())))),
    }
    match &rec.server_driver {
        Some(Ok(())) => {}
        Some(Err(c)) if c.to_string().contains("H3_NO_ERROR") => {}
        other => return Err(Violation::new("C01.server_driver_outcome", format!("server accept loop ended with {:?}", other))),
    }
    // secondary, on the wire: HEADERS decoded by the reference codec equal what was submitted
    for (i, x) in setup.exchanges.iter().enumerate() {
        let Some(id) = rec.stream_ids[i] else { continue };
        let req_wire = wire_first_headers(n.sent(id, CLIENT)).map_err(|e| Violation::new("C01.wire_headers", format!("request {i}: {e}")).fact("dir", "request"))?;
        let regular: Vec<Field> = req_wire.iter().filter(|(n, _)| !n.starts_with(b":")).cloned().collect();
        cmp_fields("request headers on the wire", &x.req.headers, &regular, false).map_err(|d| Violation::new("C01.wire_headers", d).fact("dir", "request"))?;
        let pseudo = |name: &str| req_wire.iter().find(|(n, _)| n == name.as_bytes()).map(|(_, v)| String::from_utf8_lossy(v).into_owned());
        if pseudo(":method").as_deref() != Some(x.req.method.as_str()) || pseudo(":authority").as_deref() != Some(x.req.exp_authority.as_str()) || pseudo(":scheme") != x.req.exp_scheme || pseudo(":path") != x.req.exp_path_query {
            return Err(Violation::new("C01.wire_headers", format!("request {i}: pseudo-header fields on the wire {:?} do not match the submitted request {} {}", show(&req_wire), x.req.method, x.req.uri)).fact("dir", "request"));
        }
        let resp_wire = wire_first_headers(n.sent(id, SERVER)).map_err(|e| Violation::new("C01.wire_headers", format!("response {i}: {e}")).fact("dir", "response"))?;
        let regular: Vec<Field> = resp_wire.iter().filter(|(n, _)| !n.starts_with(b":")).cloned().collect();
        cmp_fields("response headers on the wire", &x.resp.headers, &regular, false).map_err(|d| Violation::new("C01.wire_headers", d).fact("dir", "response"))?;
    }
    Ok(())
}

pub fn gen_setup() -> Setup {
    let n = 1 + draw_usize(3);
    let allow_empty = !chance(1, 4);
    let ext = BuildCfg { extended_connect: true, ..Default::default() };
    Setup { exchanges: (0..n).map(|i| gen_exchange(i, allow_empty)).collect(), grease: [draw(2) == 1, draw(2) == 1], concurrent: draw(2) == 1, build: [ext.clone(), ext], chaos: Chaos::default() }
}

impl Check for C01 {
    fn id(&self) -> &'static str {
        "C01"
    }
    fn meta(&self) -> Meta {
        Meta {
            level: "exploration",
            rule: "1-3 generated request/response exchanges per connection (10 methods incl. CONNECT and extended CONNECT, absolute/authority-form targets, 0-8 header fields over a colliding name alphabet incl. static-table hits and misses, obs-text and blank-padded values, bodies 0..64 KiB at varint/buffer boundary sizes handed over in 0-6 pieces incl. empty pieces and multi-chunk Bufs, optional trailers; whole streams or split halves on separate tasks, split at once or after a drawn number of recv_data calls on the whole stream; on whole streams the server may send its response before it reads the request body; sequential or concurrent) x drawn transport (chunk sizes incl. 1-byte and frame-boundary-biased, partial write acceptance incl. header-splitting and copy_to_bytes consumption, write pends, scarce stream credit, FIN in its own event, out-of-order accept, coalesced reads) x drawn task order and spurious polls; back-pressure and delay only, no faults; non-trivial = every exchange completed and >= 2 chunk deliveries; distinct = distinct schedule signatures",
            real: &["h3 client (builder, Connection driver, SendRequest, RequestStream)", "h3 server (builder, Connection, RequestResolver, RequestStream)", "h3 connection/frame/stream/buf/proto/qpack modules", "http, bytes, tokio::sync::mpsc"],
            stub: &["QUIC transport (SimQuic, both ends)", "executor (simexec)", "applications (models following the documented call pattern)"],
            assumptions: &["header names/values are ones the http crate and h3 accept (no connection-specific fields, no content-length)", "targets are given with a scheme and authority; an empty path is expected as \"/\""],
            quick_runs: 400_000,
            thorough_runs: 16_000_000,
        }
    }
    fn run(&self, ctx: &RunCtx) -> RunOut {
        let setup = gen_setup();
        let mut cfg = NetCfg::drawn();
        cfg.drop_send = 0;
        cfg.drop_recv_stops = false;
        let scarce = chance(1, 3);
        let out = run_exchanges(setup, cfg, scarce);
        if let Some(p) = &out.panic {
            if p.in_harness() {
                return RunOut { harness_error: Some(format!("harness panic: {} at {}", p.msg, p.loc)), ..Default::default() };
            }
            return RunOut::fail(Violation::new("C01.panic", format!("h3 panicked in task {}: {} at {}", p.task, p.msg, p.loc)).fact("at", p.loc.rsplit('/').next().unwrap_or("")));
        }
        obs::note(|| format!("setup: {:?}", out.setup.exchanges.iter().map(|x| (x.req.method.clone(), x.req.uri.clone(), x.req.body.pieces.clone(), x.req.split, x.resp.status, x.resp.body.pieces.clone(), x.resp.split)).collect::<Vec<_>>()));
        if let Err(v) = judge(&out) {
            return RunOut::fail(v);
        }
        let nontrivial = obs::counter("net.chunk_delivered") >= 2;
        let mut r = RunOut::ok(nontrivial);
        if ctx.want_sample {
            let x = &out.setup.exchanges[0];
            r.sample = Some(json!({"exchanges": out.setup.exchanges.len(), "first_request": format!("{} {}", x.req.method, x.req.uri), "request_headers": show(&x.req.headers), "request_body_pieces": x.req.body.pieces, "request_split": x.req.split, "response_status": x.resp.status, "response_body_pieces": x.resp.body.pieces, "steps": out.steps, "concurrent": out.setup.concurrent}));
        }
        r
    }
}

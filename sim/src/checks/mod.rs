//! One module per claimed property.
use crate::runner::Check;
pub mod c02;
pub mod c03;
pub mod peer;
pub mod common;

pub fn ids() -> Vec<&'static str> {
    vec!["C02", "C03"]
}
pub fn get(id: &str) -> Option<Box<dyn Check>> {
    match id {
        "C02" => Some(Box::new(c02::C02)),
        "C03" => Some(Box::new(c03::C03)),
        _ => None,
    }
}

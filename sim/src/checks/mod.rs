//! One module per claimed property.
use crate::runner::Check;
pub mod c01;
pub mod c02;
pub mod c02b;
pub mod e2e;
pub mod c03;
pub mod c04;
pub mod c05;
pub mod c06;
pub mod c07;
pub mod c08;
pub mod c09;
pub mod c10;
pub mod c13;
pub mod c14;
pub mod c17;
pub mod c18;
pub mod c19;
pub mod c20;
pub mod wire;
pub mod peer;
pub mod common;

pub fn ids() -> Vec<&'static str> {
    vec!["C01", "C02", "C03", "C04", "C05", "C06", "C07", "C08", "C09", "C10", "C13", "C14", "C17", "C18", "C19", "C20"]
}
pub fn get(id: &str) -> Option<Box<dyn Check>> {
    match id {
        "C01" => Some(Box::new(c01::C01)),
        "C02" => Some(Box::new(c02::C02)),
        "C03" => Some(Box::new(c03::C03)),
        "C04" => Some(Box::new(c04::C04)),
        "C05" => Some(Box::new(c05::C05)),
        "C06" => Some(Box::new(c06::C06)),
        "C07" => Some(Box::new(c07::C07)),
        "C08" => Some(Box::new(c08::C08)),
        "C09" => Some(Box::new(c09::C09)),
        "C10" => Some(Box::new(c10::C10)),
        "C13" => Some(Box::new(c13::C13)),
        "C14" => Some(Box::new(c14::C14)),
        "C17" => Some(Box::new(c17::C17)),
        "C18" => Some(Box::new(c18::C18)),
        "C19" => Some(Box::new(c19::C19)),
        "C20" => Some(Box::new(c20::C20)),
        _ => None,
    }
}

//! C08 — GOAWAY identifiers never grow and draw the accept/reject line exactly.
use super::common::*;
use super::e2e::Gate;
use super::peer::*;
use crate::choice::{chance, draw, draw_usize, pick};
use crate::exec::{self, Exec, Stop};
use crate::net::{self, Net, NetCfg, NetWorld, SimBuf, SimConn, CLIENT, SERVER};
use crate::obs;
use crate::refs::frames;
use crate::refs::varint;
use crate::runner::{Check, Meta, RunCtx, RunOut, Violation};
use serde_json::json;
use std::cell::RefCell;
use std::future::poll_fn;
use std::rc::Rc;

pub struct C08;

#[derive(Debug, Clone, PartialEq)]
pub enum Hist {
    Shown(u64),
    /// shutdown(n) returned; GOAWAY ids on the wire so far
    Shutdown(usize, Vec<u64>),
    ShutdownErr(String),
}
#[derive(Default, Debug)]
pub struct SrvRec {
    pub hist: Vec<Hist>,
    pub driver: Option<Result<(), COut>>,
    pub served: Vec<u64>,
    pub build_err: Option<String>,
}

/// GOAWAY ids written so far on the control stream of `side`
pub fn goaways_on_wire(n: &Net, side: u8) -> Vec<u64> {
    for id in n.streams_of(side) {
        if !net::is_uni(id) || net::initiator(id) != side {
            continue;
        }
        let b = n.sent(id, side);
        if let Some((frames::ST_CONTROL, tn)) = varint::decode(b) {
            let (fr, _) = frames::segment(&b[tn..]);
            return fr.iter().filter(|f| f.ty == frames::GOAWAY).filter_map(|f| varint::decode(&f.payload).map(|v| v.0)).collect();
        }
    }
    vec![]
}

fn timer(k: u32) -> Rc<Gate> {
    let g = Rc::new(Gate::default());
    let g2 = g.clone();
    exec::spawn("timer", async move {
        for _ in 0..k {
            exec::yield_now().await;
        }
        g2.open();
    });
    g
}

fn run_server_side(ctx: &RunCtx) -> RunOut {
    let k = 1 + draw_usize(6);
    let mut cfg = NetCfg::drawn();
    cfg.in_order_accept = draw(2) == 1; // arrival order follows delivery order when false
    cfg.drop_send = 0;
    cfg.drop_recv_stops = false;
    let in_order = cfg.in_order_accept;
    let net = Net::new(cfg);
    // shutdown plan: 0-3 calls with n in 0..=3 at drawn moments
    let ncalls = draw_usize(4);
    // n in 0..3, or - one call in eight - enormous ("let everything in flight through"): the identifier must stay a
    // request stream id
    let calls: Vec<(u32, usize)> = (0..ncalls).map(|_| (draw(80), *pick(&[0usize, 1, 2, 3, 0, 1, 2, 3, 0, 1, 2, 3, 0, 1, usize::MAX, 1 << 60]))).collect();
    // the peer: control stream + k requests written in a drawn order, at drawn moments
    let mut order: Vec<usize> = (0..k).collect();
    for i in (1..k).rev() {
        let j = draw_usize(i + 1);
        order.swap(i, j);
    }
    {
        let mut n = net.lock().unwrap();
        peer_control(&mut n, CLIENT, &[]);
        for i in 0..k {
            n.raw_open((i as u64) << 2);
        }
    }
    // slow requests: the peer withholds the end of the body until the first judgement has been made, so that
    // a request stays in progress while shutdown calls and later arrivals are handled
    let slow: Vec<bool> = (0..k).map(|_| draw(4) == 3).collect();
    if slow.iter().any(|s| *s) {
        obs::count("probe.request_in_progress_across_shutdown");
    }
    let rec: Rc<RefCell<SrvRec>> = Default::default();
    let mut ex = Exec::new();
    ex.max_steps = 60_000;
    ex.spurious = draw(3) == 1;
    {
        let net = net.clone();
        let order = order.clone();
        let slow = slow.clone();
        ex.spawn("peer", async move {
            for i in order {
                let id = (i as u64) << 2;
                let gap = draw(12);
                for _ in 0..gap {
                    exec::yield_now().await;
                }
                let mut b = headers_frame(&request_fields("GET", "/c08"));
                b.extend(frames::frame(frames::DATA, b"hello"));
                let mut n = net.lock().unwrap();
                if slow[i] {
                    n.raw_write(id, CLIENT, &b[..b.len() - 3]);
                } else {
                    n.raw_write(id, CLIENT, &b);
                    n.raw_fin(id, CLIENT);
                }
            }
        });
    }
    {
        let conn: SimConn = net::conn(&net, SERVER);
        let rec = rec.clone();
        let net2 = net.clone();
        ex.spawn("server", async move {
            let mut b = h3::server::builder();
            b.send_grease(draw(2) == 1);
            let mut c = match b.build::<_, SimBuf>(conn).await {
                Ok(c) => c,
                Err(e) => {
                    rec.borrow_mut().build_err = Some(e.to_string());
                    return;
                }
            };
            let mut gates: Vec<(Rc<Gate>, usize)> = calls.iter().map(|(d, n)| (timer(*d), *n)).collect();
            loop {
                enum Sel<T> {
                    Acc(T),
                    Shut(usize),
                }
                let sel = {
                    let gate = gates.first().cloned();
                    match super::e2e::accept_or_gate(&mut c, gate.as_ref().map(|(g, _)| g.as_ref())).await {
                        super::e2e::Accepted::Gate => Sel::Shut(gate.unwrap().1),
                        super::e2e::Accepted::Request(r) => Sel::Acc(Ok(Some(r))),
                        super::e2e::Accepted::Done => Sel::Acc(Ok(None)),
                        super::e2e::Accepted::Err(e) => Sel::Acc(Err(e)),
                    }
                };
                match sel {
                    Sel::Shut(n) => {
                        gates.remove(0);
                        obs::ev("app.shutdown", (n as u64).saturating_mul(4), 0);
                        match c.shutdown(n).await {
                            Ok(()) => {
                                let ids = goaways_on_wire(&net2.lock().unwrap(), SERVER);
                                rec.borrow_mut().hist.push(Hist::Shutdown(n, ids));
                            }
                            Err(e) => {
                                rec.borrow_mut().hist.push(Hist::ShutdownErr(e.to_string()));
                                return;
                            }
                        }
                    }
                    Sel::Acc(Ok(Some(resolver))) => {
                        let id = resolver.frame_stream.id().into_inner();
                        obs::ev("app.shown", id, 0);
                        rec.borrow_mut().hist.push(Hist::Shown(id));
                        let rec = rec.clone();
                        exec::spawn(format!("srv-req{id}"), async move {
                            let r = async {
                                let (_req, mut s) = resolver.resolve_request().await?;
                                while s.recv_data().await?.is_some() {}
                                s.recv_trailers().await?;
                                s.send_response(http::Response::builder().status(200).body(()).unwrap()).await?;
                                s.send_data(SimBuf::one(b"served".to_vec())).await?;
                                s.finish().await
                            }
                            .await;
                            if r.is_ok() {
                                rec.borrow_mut().served.push(id);
                            }
                        });
                    }
                    Sel::Acc(Ok(None)) => {
                        rec.borrow_mut().driver = Some(Ok(()));
                        return;
                    }
                    Sel::Acc(Err(e)) => {
                        rec.borrow_mut().driver = Some(Err(cout(&e)));
                        return;
                    }
                }
            }
        });
    }
    for phase in 0..2 {
    let last_phase = phase == 1 || !slow.iter().any(|x| *x);
    let stop = ex.run(&mut NetWorld(net.clone()));
    if let Some(p) = &ex.panic {
        if p.in_harness() {
            return RunOut { harness_error: Some(format!("harness panic: {} at {}", p.msg, p.loc)), ..Default::default() };
        }
        return RunOut::fail(Violation::new("C08.panic", format!("h3 panicked in task {}: {} at {}", p.task, p.msg, p.loc)).fact("at", p.loc.rsplit('/').next().unwrap_or("")));
    }
    if stop == Stop::StepCap {
        return RunOut::fail(Violation::new("C08.step_cap", "no quiescence".to_string()));
    }
    let r = rec.borrow();
    let n = net.lock().unwrap();
    obs::note(|| format!("arrival order {:?} in_order_accept={in_order}; history {:?}; served {:?}", order, r.hist, r.served));
    let mk = |rule: &str, d: String| RunOut::fail(Violation::new(rule, format!("{d}; history {:?}; requests whose end is withheld until the second phase {:?}; phase {phase}", r.hist, slow)).fact("side", "server"));
    if let Some(e) = &r.build_err {
        return mk("C08.setup_failed", e.clone());
    }
    // accept() may report "no more requests" once the server itself has begun shutdown and is idle
    let accept_ended = match &r.driver {
        None => false,
        Some(Ok(())) if r.hist.iter().any(|h| matches!(h, Hist::Shutdown(..))) => true,
        Some(d) => return mk("C08.accept_ended", format!("accept() ended with {:?} although neither side had begun shutdown", d)),
    };
    let wire = goaways_on_wire(&n, SERVER);
    // R1: never increasing
    if wire.windows(2).any(|w| w[1] > w[0]) {
        return mk("C08.goaway_id_increased", format!("GOAWAY identifiers on the wire {:?}", wire));
    }
    for g in &wire {
        if g % 4 != 0 {
            return mk("C08.goaway_id_not_request_stream", format!("GOAWAY identifiers on the wire {:?}", wire));
        }
    }
    // R2/R3 over the sequential history of the accept task
    let mut shown: Vec<u64> = vec![];
    let mut sent_so_far: Vec<u64> = vec![];
    for h in &r.hist {
        match h {
            Hist::Shown(id) => {
                if let Some(x) = sent_so_far.iter().find(|x| *id >= **x) {
                    return mk("C08.accepted_after_announcing_rejection", format!("stream {id} was handed to the application although GOAWAY({x}) had already been sent")).map_fact("kind", if *id == *x { "boundary" } else { "above" });
                }
                shown.push(*id);
            }
            Hist::Shutdown(nreq, ids) => {
                let new: Vec<u64> = ids[sent_so_far.len().min(ids.len())..].to_vec();
                for x in &new {
                    if let Some(id) = shown.iter().find(|id| **id >= *x) {
                        let boundary = shown.iter().all(|id| *id <= *x);
                        return mk("C08.goaway_below_served_stream", format!("shutdown({nreq}) wrote GOAWAY({x}) although stream {id} had already been handed to the application (requests with id >= {x} are declared rejected)")).map_fact("kind", if boundary { "boundary" } else { "out_of_order_arrival" });
                    }
                }
                sent_so_far = ids.clone();
            }
            Hist::ShutdownErr(e) => return mk("C08.shutdown_failed", e.clone()),
        }
    }
    // R4-R6 at quiescence
    let final_last = wire.last().copied();
    for i in 0..k {
        let id = (i as u64) << 2;
        let rejected = n.dir_ref(id, SERVER).map(|d| d.reset_calls.contains(&0x10b)).unwrap_or(false);
        let stopped = n.dir_ref(id, CLIENT).map(|d| d.stop_calls.contains(&0x10b)).unwrap_or(false);
        let was_shown = shown.contains(&id);
        if was_shown && rejected {
            return mk("C08.shown_and_rejected", format!("stream {id} was handed to the application and also reset with H3_REQUEST_REJECTED"));
        }
        if !was_shown && !rejected && accept_ended {
            // arrived after the accept loop had legitimately ended: nobody will serve it, so the last GOAWAY
            // on the wire must not promise it. (Only a stream above everything shown is judged: one that was
            // overtaken by a later-numbered stream is below any identifier the server could still send.)
            if let Some(x) = final_last {
                if shown.iter().all(|s| *s < id) {
                    obs::count("probe.stream_arrives_after_accept_ended");
                    if r.hist.iter().any(|h| matches!(h, Hist::Shutdown(n, _) if *n >= 1)) {
                        obs::count("probe.stream_arrives_after_accept_ended_and_shutdown_with_grace");
                    }
                }
                if id < x && shown.iter().all(|s| *s < id) {
                    return mk("C08.request_below_final_goaway_never_served", format!("accept() reported the end of the connection, the last GOAWAY on the wire is {x}, and stream {id} (below it, above every stream shown) arrived afterwards: the client is told it may still be processed, but the application has been told there is nothing more to accept"));
                }
            }
            continue;
        }
        if !was_shown && !rejected {
            return mk("C08.request_neither_served_nor_rejected", format!("stream {id} arrived but was neither handed to the application nor rejected (final GOAWAY {:?})", final_last));
        }
        if rejected {
            if !stopped {
                return mk("C08.rejected_without_stop_sending", format!("stream {id} was reset with H3_REQUEST_REJECTED but not stop-sent"));
            }
            match final_last {
                Some(x) if id >= x => {}
                _ => return mk("C08.rejected_below_goaway", format!("stream {id} was rejected although it is below every GOAWAY identifier sent ({:?})", wire)),
            }
        }
        if was_shown && !r.served.contains(&id) && (last_phase || !slow[i]) {
            return mk("C08.accepted_request_not_served", format!("stream {id} was accepted but could not be served to completion"));
        }
    }
    if !last_phase {
        // second phase: the peer completes the requests it had left open
        drop(r);
        let mut nn = n;
        let b = frames::frame(frames::DATA, b"hello");
        for i in 0..k {
            if slow[i] {
                let id = (i as u64) << 2;
                nn.raw_write(id, CLIENT, &b[b.len() - 3..]);
                nn.raw_fin(id, CLIENT);
            }
        }
        continue;
    }
    if !wire.is_empty() {
        obs::count("probe.goaway_sent");
    }
    if order.windows(2).any(|w| w[1] < w[0]) && !in_order {
        obs::count("probe.out_of_order_arrival_possible");
    }
    if (0..k).any(|i| n.dir_ref((i as u64) << 2, SERVER).map(|d| d.reset_calls.contains(&0x10b)).unwrap_or(false)) {
        obs::count("probe.request_rejected");
    }
    let mut out = RunOut::ok(!wire.is_empty() && k >= 2);
    if ctx.want_sample {
        out.sample = Some(json!({"side": "server", "requests": k, "peer_write_order": order, "in_order_accept": in_order, "history": format!("{:?}", r.hist), "goaways_on_wire": wire, "served": r.served}));
    }
    return out;
    }
    unreachable!()
}

trait MapFact {
    fn map_fact(self, k: &str, v: &str) -> Self;
}
impl MapFact for RunOut {
    fn map_fact(mut self, k: &str, v: &str) -> Self {
        if let Some(x) = self.violation.take() {
            self.violation = Some(x.fact(k, v));
        }
        self
    }
}

fn run_client_side(ctx: &RunCtx) -> RunOut {
    let cfg = NetCfg::drawn();
    let net = Net::new(cfg);
    let seq: Vec<u64> = {
        let n = 1 + draw_usize(3);
        (0..n).map(|_| *pick(&[8u64, 4, 0, 12, 400, 1, 2, 3, 7, 16384])).collect()
    };
    // one run in three: the client application calls shutdown() itself before the server's GOAWAYs are processed
    let own_shutdown = draw(3) == 2;
    // reference: first bad index
    let mut prev: Option<u64> = None;
    let mut bad: Option<usize> = None;
    for (i, g) in seq.iter().enumerate() {
        if g % 4 != 0 || prev.map(|p| *g > p).unwrap_or(false) {
            bad = Some(i);
            break;
        }
        prev = Some(*g);
    }
    {
        let mut n = net.lock().unwrap();
        let cid = peer_control(&mut n, SERVER, &[]);
        for g in &seq {
            let b = frame_forms(frames::GOAWAY, &varint_any_form(*g));
            n.raw_write(cid, SERVER, &b);
        }
    }
    #[derive(Default, Debug)]
    struct CliRec {
        driver: Option<COut>,
        early: Vec<Result<u64, SOut>>,
        probe: Vec<Result<u64, SOut>>,
        build_err: Option<String>,
    }
    let rec: Rc<RefCell<CliRec>> = Default::default();
    let gate = Rc::new(Gate::default());
    let mut ex = Exec::new();
    ex.spurious = draw(3) == 1;
    {
        let conn: SimConn = net::conn(&net, CLIENT);
        let rec = rec.clone();
        let gate = gate.clone();
        ex.spawn("client", async move {
            let mut b = h3::client::builder();
            b.send_grease(draw(2) == 1);
            let (mut driver, mut sr) = match b.build::<_, _, SimBuf>(conn).await {
                Ok(x) => x,
                Err(e) => {
                    rec.borrow_mut().build_err = Some(e.to_string());
                    return;
                }
            };
            let rec_d = rec.clone();
            exec::spawn("driver", async move {
                if own_shutdown {
                    // the client begins its own graceful shutdown first; what the server sends afterwards is still checked
                    obs::count("probe.client_shutdown_before_goaway");
                    if let Err(e) = driver.shutdown(0).await {
                        rec_d.borrow_mut().driver = Some(cout(&e));
                        std::future::pending::<()>().await;
                    }
                }
                let e = poll_fn(|cx| driver.poll_close(cx)).await;
                rec_d.borrow_mut().driver = Some(cout(&e));
                std::future::pending::<()>().await;
                drop(driver);
            });
            // requests racing with the GOAWAY delivery: unconstrained, recorded for the sample
            if chance(1, 2) {
                let req = http::Request::builder().uri("https://example.com/early").body(()).unwrap();
                let r = sr.send_request(req).await;
                rec.borrow_mut().early.push(r.map(|s| s.id().into_inner()).map_err(|e| sout(&e)));
            }
            gate.wait().await;
            for _ in 0..2 {
                let req = http::Request::builder().uri("https://example.com/late").body(()).unwrap();
                let r = sr.send_request(req).await;
                rec.borrow_mut().probe.push(r.map(|s| s.id().into_inner()).map_err(|e| sout(&e)));
            }
            std::future::pending::<()>().await;
            drop(sr);
        });
    }
    let stop = ex.run(&mut NetWorld(net.clone()));
    let opened_before = net.lock().unwrap().sides[CLIENT as usize].opened_bi.len();
    let close_q1 = net.lock().unwrap().closes_by(CLIENT).first().copied();
    let driver_q1 = rec.borrow().driver.clone();
    if stop == Stop::Quiescent && ex.panic.is_none() {
        obs::ev("phase.probe", 0, 0);
        gate.open();
        ex.run(&mut NetWorld(net.clone()));
    }
    if let Some(p) = &ex.panic {
        if p.in_harness() {
            return RunOut { harness_error: Some(format!("harness panic: {} at {}", p.msg, p.loc)), ..Default::default() };
        }
        return RunOut::fail(Violation::new("C08.panic", format!("h3 panicked in task {}: {} at {}", p.task, p.msg, p.loc)).fact("at", p.loc.rsplit('/').next().unwrap_or("")));
    }
    if ex.steps >= ex.max_steps {
        return RunOut::fail(Violation::new("C08.step_cap", "no quiescence".to_string()));
    }
    let r = rec.borrow();
    let opened_after = net.lock().unwrap().sides[CLIENT as usize].opened_bi.len();
    obs::note(|| format!("GOAWAY sequence {:?}; observed {:?}", seq, r));
    let mk = |rule: &str, d: String| RunOut::fail(Violation::new(rule, format!("{d}; GOAWAY sequence received {:?}; observed {:?}", seq, r)).fact("side", "client"));
    if let Some(e) = &r.build_err {
        return mk("C08.setup_failed", e.clone());
    }
    match bad {
        Some(i) => {
            let why = if seq[i] % 4 != 0 { "not_a_request_stream_id" } else { "increased" };
            if driver_q1 != Some(COut::Local(0x108)) || close_q1 != Some(0x108) {
                return mk("C08.bad_goaway_not_id_error", format!("GOAWAY #{i} ({}) is {why}: expected connection error H3_ID_ERROR, driver {:?}, close {:?}", seq[i], driver_q1, close_q1.map(code_name))).map_fact("why", why);
            }
        }
        None if own_shutdown => {
            // the client is shutting down by its own choice: how its driver ends and how new requests are refused
            // is not the peer's GOAWAY's doing; only an H3_ID_ERROR on this valid sequence would be wrong
            if driver_q1 == Some(COut::Local(0x108)) {
                return mk("C08.valid_goaway_sequence_failed", "driver ended with H3_ID_ERROR on a valid GOAWAY sequence".into());
            }
        }
        None => {
            if let Some(d) = &driver_q1 {
                return mk("C08.valid_goaway_sequence_failed", format!("driver ended with {d} on a valid GOAWAY sequence"));
            }
            // after the driver processed the GOAWAYs no new request starts
            for p in &r.probe {
                if *p != Err(SOut::RemoteClosing) {
                    return mk("C08.request_started_after_goaway", format!("send_request after GOAWAY returned {:?} instead of a remote-closing refusal", p));
                }
            }
            if opened_after != opened_before {
                return mk("C08.stream_opened_after_goaway", format!("{} request streams were opened after the GOAWAY had been processed", opened_after - opened_before));
            }
        }
    }
    obs::count(if bad.is_some() { "probe.bad_goaway_sequence" } else { "probe.valid_goaway_sequence" });
    let mut out = RunOut::ok(seq.len() >= 2 || obs::counter("net.chunk_delivered") >= 2);
    if ctx.want_sample {
        out.sample = Some(json!({"side": "client", "goaway_sequence": seq, "first_bad_index": bad, "driver": format!("{:?}", driver_q1), "probes": format!("{:?}", r.probe), "early": format!("{:?}", r.early)}));
    }
    out
}

impl Check for C08 {
    fn id(&self) -> &'static str {
        "C08"
    }
    fn meta(&self) -> Meta {
        Meta {
            level: "exploration",
            rule: "server side: histories interleaving 1-6 request arrivals (peer write order and, with arrival-order accept, delivery order drawn, so stream 8 may arrive before 4), 0-3 shutdown(n) calls with n in 0..3 (one call in eight: 2^60 or usize::MAX) at drawn moments (while a shutdown call is still planned the wait for the next request is the poll-based equivalent of accept() so that it can be interrupted without cancelling a future in the middle of a write; after the last planned call the application calls accept() itself and stops at None), request handling, streams that arrive after accept() has reported the end judged against the last GOAWAY on the wire; client side: received GOAWAY id sequences of length 1-3 over {8,4,0,12,400,16384,1,2,3,7} in all varint forms, racing and later send_request calls, in one run in three after the client application called shutdown() itself; all task interleavings and chunkings drawn; non-trivial = a GOAWAY was written and >= 2 requests (server) / >= 2 GOAWAYs or >= 2 chunks (client); distinct = distinct schedule signatures",
            real: &["h3 server Connection (accept filter, shutdown, last-accepted bookkeeping)", "h3 client Connection (GOAWAY processing) and SendRequest", "ConnectionInner::shutdown / process_goaway"],
            stub: &["QUIC transport (SimQuic)", "executor (simexec)", "peer (script; parses h3's control stream with the reference codecs)", "application (accept/shutdown loop, echo handler; client probes)"],
            assumptions: &["the sequential history of the accept task defines 'shown before / after a GOAWAY was written'", "requests racing with the delivery of a GOAWAY are unconstrained"],
            quick_runs: 600_000,
            thorough_runs: 24_000_000,
        }
    }
    fn run(&self, ctx: &RunCtx) -> RunOut {
        if draw(3) != 2 {
            run_server_side(ctx)
        } else {
            run_client_side(ctx)
        }
    }
}

//! Helpers shared by the checks: uniform descriptions of h3 errors, frame generators.
use crate::choice::{draw, draw_bytes, draw_usize, pick};
use crate::refs::{frames, varint};
use h3::error::{Code, ConnectionError, LocalError, StreamError};
use h3::quic::ConnectionErrorIncoming;

pub fn code_name(c: u64) -> String {
    format!("{}", Code::from(c))
}

#[derive(Clone, Debug, PartialEq)]
pub enum COut {
    Local(u64),
    LocalClosing,
    RemoteApp(u64),
    RemoteInternal,
    RemoteUndefined,
    Timeout,
}
impl std::fmt::Display for COut {
    fn fmt(&self, f: &mut std::fmt::Formatter<'_>) -> std::fmt::Result {
        match self {
            COut::Local(c) => write!(f, "Local({})", code_name(*c)),
            COut::LocalClosing => write!(f, "LocalClosing"),
            COut::RemoteApp(c) => write!(f, "RemoteApp({})", code_name(*c)),
            COut::RemoteInternal => write!(f, "RemoteInternal"),
            COut::RemoteUndefined => write!(f, "RemoteUndefined"),
            COut::Timeout => write!(f, "Timeout"),
        }
    }
}
pub fn cout(e: &ConnectionError) -> COut {
    match e {
        ConnectionError::Local { error: LocalError::Application { code, .. } } => COut::Local(code.value()),
        ConnectionError::Local { .. } => COut::LocalClosing,
        ConnectionError::Remote(ConnectionErrorIncoming::ApplicationClose { error_code }) => COut::RemoteApp(*error_code),
        ConnectionError::Remote(ConnectionErrorIncoming::Timeout) => COut::Timeout,
        ConnectionError::Remote(ConnectionErrorIncoming::InternalError(_)) => COut::RemoteInternal,
        ConnectionError::Remote(ConnectionErrorIncoming::Undefined(_)) => COut::RemoteUndefined,
        ConnectionError::Timeout => COut::Timeout,
        _ => COut::RemoteUndefined,
    }
}

#[derive(Clone, Debug, PartialEq)]
pub enum SOut {
    Stream(u64),
    RemoteTerminate(u64),
    Conn(COut),
    HeaderTooBig(u64, u64),
    RemoteClosing,
    Undefined,
}
impl std::fmt::Display for SOut {
    fn fmt(&self, f: &mut std::fmt::Formatter<'_>) -> std::fmt::Result {
        match self {
            SOut::Stream(c) => write!(f, "StreamError({})", code_name(*c)),
            SOut::RemoteTerminate(c) => write!(f, "RemoteTerminate({})", code_name(*c)),
            SOut::Conn(c) => write!(f, "Conn({c})"),
            SOut::HeaderTooBig(a, m) => write!(f, "HeaderTooBig(actual={a},max={m})"),
            SOut::RemoteClosing => write!(f, "RemoteClosing"),
            SOut::Undefined => write!(f, "Undefined"),
        }
    }
}
pub fn sout(e: &StreamError) -> SOut {
    match e {
        StreamError::StreamError { code, .. } => SOut::Stream(code.value()),
        StreamError::RemoteTerminate { code } => SOut::RemoteTerminate(code.value()),
        StreamError::ConnectionError(c) => SOut::Conn(cout(c)),
        StreamError::HeaderTooBig { actual_size, max_size } => SOut::HeaderTooBig(*actual_size, *max_size),
        StreamError::RemoteClosing => SOut::RemoteClosing,
        StreamError::Undefined(_) => SOut::Undefined,
        _ => SOut::Undefined,
    }
}

// ---------------------------------------------------------------- generators

pub const UNKNOWN_TYPES: [u64; 8] = [0x21, 0x40, 0x0a, 0x0e, 0x20, 0x42, 0x21 + 0x1f * 1000, 0x3fff_ffff_ffff_fffe - (0x3fff_ffff_ffff_fffe - 0x21) % 0x1f];

/// a varint in a drawn (possibly non-minimal) form
pub fn varint_any_form(v: u64) -> Vec<u8> {
    let min = varint::min_form(v);
    let f = match draw(4) {
        0 | 1 => min,
        _ => min + draw_usize(4 - min),
    };
    varint::encode_form(v, f).unwrap()
}
pub fn some_varint_value() -> u64 {
    *pick(&[0u64, 4, 1, 63, 64, 8, 16383, 16384, (1 << 30) - 1, 1 << 30, varint::MAX, 12, 400])
}

/// one frame: header (any varint forms) + payload of exactly the announced length
pub fn frame_forms(ty: u64, payload: &[u8]) -> Vec<u8> {
    let mut v = varint_any_form(ty);
    v.extend(varint_any_form(payload.len() as u64));
    v.extend_from_slice(payload);
    v
}

#[derive(Clone, Copy, PartialEq, Debug)]
pub enum PayKind {
    Right,
    Short,
    Long,
}
/// payload of a single-varint frame (GOAWAY, CANCEL_PUSH, MAX_PUSH_ID)
pub fn one_varint_payload(kind: PayKind, value: u64) -> Vec<u8> {
    let mut p = varint_any_form(value);
    match kind {
        PayKind::Right => {}
        PayKind::Short => {
            let keep = draw_usize(p.len()); // 0..len-1 bytes kept
            if p.len() == 1 {
                p.clear();
            } else {
                p.truncate(keep);
                if p.is_empty() && draw(2) == 1 {
                    // keep a first byte that announces more than is there
                    p = vec![0xc0];
                }
            }
        }
        PayKind::Long => {
            let extra = 1 + draw_usize(3);
            p.extend(draw_bytes(extra));
        }
    }
    p
}
pub fn settings_payload_valid() -> Vec<(u64, u64)> {
    let mut ids = vec![frames::SET_MAX_FIELD_SECTION, frames::SET_CONNECT_PROTOCOL, frames::SET_H3_DATAGRAM, frames::SET_ENABLE_WT, frames::SET_WT_MAX_SESSIONS, frames::SET_QPACK_MAX_TABLE, frames::SET_QPACK_BLOCKED, 0x21, 0x21 + 0x1f * 7, 0x0f00];
    let n = draw_usize(4);
    let mut out = vec![];
    for _ in 0..n {
        if ids.is_empty() {
            break;
        }
        let id = ids.remove(draw_usize(ids.len()));
        out.push((id, *pick(&[0u64, 1, 100, 16384, varint::MAX])));
    }
    out
}
pub fn settings_bytes(entries: &[(u64, u64)]) -> Vec<u8> {
    let mut p = vec![];
    for (k, v) in entries {
        p.extend(varint_any_form(*k));
        p.extend(varint_any_form(*v));
    }
    p
}

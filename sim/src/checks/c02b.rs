//! C02, part (b): the frame-layout and truncation errors of part (a) as they surface at the server and
//! client API - connection error H3_FRAME_ERROR at the call in progress, at the driver, and as the code
//! the transport is closed with - on request, response and control streams. Strings are chosen so that
//! only the layout/truncation rule applies (a frame that is also out of place admits either code and is
//! the business of C03/C04).
use super::c03::{run_client, run_server, trailer_fields, Obs};
use super::common::*;
use super::peer::*;
use crate::choice::{draw, draw_usize, pick};
use crate::exec::{Exec, Stop};
use crate::net::{Net, NetCfg, NetWorld, CLIENT, SERVER};
use crate::obs;
use crate::refs::frames;
use crate::refs::varint;
use crate::runner::{RunOut, Violation};
use std::cell::RefCell;
use std::rc::Rc;

const FRAME_ERROR: u64 = 0x106;

fn body_bytes(n: usize, salt: u8) -> Vec<u8> {
    (0..n).map(|i| (i as u8).wrapping_mul(7).wrapping_add(salt)).collect()
}

/// a frame cut by the end of the stream: returns (bytes kept, what was cut, DATA payload bytes kept)
fn cut_frame(only_unknown: bool) -> (Vec<u8>, &'static str, Vec<u8>) {
    // after the trailers only frames of unknown type are legal, so only those are cut there
    match if only_unknown { *pick(&[2u32, 6, 7]) } else { draw(6) } {
        0 => {
            // DATA cut inside its payload
            let n = 2 + draw_usize(40);
            let k = draw_usize(n); // 0..n-1 bytes of payload arrive
            let p = body_bytes(n, 0x55);
            let mut b = varint_any_form(frames::DATA);
            b.extend(varint_any_form(n as u64));
            b.extend_from_slice(&p[..k]);
            (b, "DATA.payload", p[..k].to_vec())
        }
        1 => {
            // DATA cut inside a multi-byte length
            let mut b = varint_any_form(frames::DATA);
            let l = varint::encode_form(5, *pick(&[1usize, 2, 3])).unwrap();
            let keep = 1 + draw_usize(l.len() - 1); // 1..len-1 bytes of the length arrive
            b.extend_from_slice(&l[..keep]);
            (b, "DATA.length", vec![])
        }
        2 => {
            // unknown / grease frame cut inside its payload
            let n = 1 + draw_usize(30);
            let k = draw_usize(n);
            let mut b = varint_any_form(0x21 + 0x1f * draw(500) as u64);
            b.extend(varint_any_form(n as u64));
            b.extend(vec![0x77; k]);
            (b, "unknown.payload", vec![])
        }
        3 => {
            // trailing HEADERS cut inside its payload
            let full = headers_frame(&trailer_fields());
            let hdr = 2; // type + 1-byte length for this small section
            let keep = hdr + draw_usize(full.len() - hdr);
            (full[..keep.min(full.len() - 1)].to_vec(), "HEADERS.payload", vec![])
        }
        4 => {
            // a multi-byte frame type cut in the middle (any type)
            let t = varint::encode_form(*pick(&[0u64, 1, 0x21]), *pick(&[1usize, 2, 3])).unwrap();
            let keep = 1 + draw_usize(t.len() - 1);
            (t[..keep.min(t.len() - 1)].to_vec(), "type", vec![])
        }
        6 => {
            // a multi-byte grease type cut in the middle
            let t = varint::encode_form(0x21 + 0x1f * 64, *pick(&[1usize, 2, 3])).unwrap();
            let keep = 1 + draw_usize(t.len() - 1);
            (t[..keep.min(t.len() - 1)].to_vec(), "unknown.type", vec![])
        }
        7 => (varint_any_form(0x21 + 0x1f * draw(100) as u64), "unknown.length_missing", vec![]),
        _ => {
            // only the type of a frame, no length at all
            (varint_any_form(*pick(&[frames::DATA, frames::HEADERS, 0x21])), "length_missing", vec![])
        }
    }
}

fn hexs(b: &[u8]) -> String {
    b.iter().map(|x| format!("{x:02x}")).collect::<Vec<_>>().join(" ")
}

/// The very first frame of a message stream is the one the end of the stream cuts (optionally behind complete
/// frames of unknown type, which are skipped in full): nothing of the message can be delivered and the call
/// that waits for its head reports the truncation.
fn run_first_frame_cut() -> RunOut {
    let role_server = draw(2) == 0;
    let head = if role_server { request_fields("POST", "/c02b") } else { response_fields(200) };
    let mut bytes: Vec<u8> = vec![];
    for _ in 0..draw_usize(3) {
        bytes.extend(frame_forms(0x21 + 0x1f * draw(40) as u64, &body_bytes(draw_usize(6), 9)));
    }
    let (tail, what): (Vec<u8>, &'static str) = match draw(6) {
        0 => {
            let full = headers_frame(&head);
            let keep = 2 + draw_usize(full.len() - 2);
            (full[..keep.min(full.len() - 1)].to_vec(), "first.HEADERS.payload")
        }
        1 => (varint_any_form(frames::HEADERS), "first.HEADERS.length_missing"),
        2 => {
            let mut b = varint_any_form(frames::HEADERS);
            let l = varint::encode_form(headers_frame(&head).len() as u64, *pick(&[1usize, 2, 3])).unwrap();
            b.extend_from_slice(&l[..1 + draw_usize(l.len() - 1)]);
            (b, "first.HEADERS.length")
        }
        3 => {
            let t = varint::encode_form(*pick(&[1u64, 0x21]), *pick(&[1usize, 2, 3])).unwrap();
            let keep = 1 + draw_usize(t.len() - 1);
            (t[..keep.min(t.len() - 1)].to_vec(), "first.type")
        }
        4 => {
            let n = 1 + draw_usize(30);
            let mut b = varint_any_form(0x21 + 0x1f * draw(500) as u64);
            b.extend(varint_any_form(n as u64));
            b.extend(vec![0x77; draw_usize(n)]);
            (b, "first.unknown.payload")
        }
        _ => (varint_any_form(0x21 + 0x1f * draw(100) as u64), "first.unknown.length_missing"),
    };
    bytes.extend_from_slice(&tail);
    let mut cfg = NetCfg::drawn();
    cfg.drop_send = 0;
    cfg.drop_recv_stops = false;
    let net = Net::new(cfg);
    let peer = if role_server { CLIENT } else { SERVER };
    let h3side = 1 - peer;
    {
        let mut n = net.lock().unwrap();
        peer_control(&mut n, peer, &[]);
        if role_server {
            n.raw_open(0);
        }
        n.raw_write(0, peer, &bytes);
        n.raw_fin(0, peer);
    }
    let rec: Rc<RefCell<Obs>> = Default::default();
    let mut ex = Exec::new();
    ex.spurious = draw(3) == 1;
    if role_server {
        run_server(&net, &rec, &mut ex, 0);
    } else {
        run_client(&net, &rec, &mut ex, 0);
    }
    let stop = ex.run(&mut NetWorld(net.clone()));
    if let Some(p) = &ex.panic {
        if p.in_harness() {
            return RunOut { harness_error: Some(format!("harness panic: {} at {}", p.msg, p.loc)), ..Default::default() };
        }
        return RunOut::fail(Violation::new("C02.panic", format!("h3 panicked in task {}: {} at {}; stream [{}] + FIN", p.task, p.msg, p.loc, hexs(&bytes))).fact("at", p.loc.rsplit('/').next().unwrap_or("")).fact("cause", format!("api.cut.{what}")));
    }
    if stop == Stop::StepCap {
        return RunOut::fail(Violation::new("C02.step_cap", "no quiescence".to_string()));
    }
    let o = rec.borrow().clone();
    obs::note(|| format!("api mode: role_server={role_server} cut {what}; stream [{}] + FIN; observed {:?}", hexs(&bytes), o));
    let closes = net.lock().unwrap().closes_by(h3side);
    drop(ex);
    let mk = |rule: &str, d: String| RunOut::fail(Violation::new(rule, format!("{d}; {} stream [{}] then FIN (the first frame that is not skipped is cut: {what}); observed {:?}; close codes {:?}", if role_server { "request" } else { "response" }, hexs(&bytes), o, closes.iter().map(|c| code_name(*c)).collect::<Vec<_>>())).fact("role", if role_server { "server" } else { "client" }).fact("cause", format!("api.cut.{what}")).fact("position", "first_frame"));
    let fe = SOut::Conn(COut::Local(FRAME_ERROR));
    match &o.resolve {
        Some(Err(e)) if *e == fe => {}
        Some(Err(e)) => return mk("C02.api_truncated_frame_wrong_error", format!("the call waiting for the head of the message reported {e}, expected the connection error H3_FRAME_ERROR")),
        Some(Ok(())) => return mk("C02.api_truncated_frame_accepted", "a message head was delivered although no complete HEADERS frame was received".into()),
        None => return mk("C02.api_truncated_frame_accepted", "the call waiting for the head of the message is still waiting although the stream has ended inside a frame".into()),
    }
    match &o.driver {
        Some(Err(COut::Local(c))) if *c == FRAME_ERROR => {}
        other => return mk("C02.api_driver_not_informed", format!("the connection driver reported {:?}, expected Local(H3_FRAME_ERROR)", other.as_ref().map(|r| r.as_ref().map_err(|e| e.to_string())))),
    }
    if closes.first() != Some(&FRAME_ERROR) {
        return mk("C02.api_close_code_wrong", "the transport was not closed with H3_FRAME_ERROR first".into());
    }
    obs::count("probe.api_first_frame_cut");
    RunOut::ok(obs::counter("net.chunk_delivered") >= 2)
}

pub fn run_message_stream() -> RunOut {
    if draw(4) == 3 {
        return run_first_frame_cut();
    }
    let role_server = draw(2) == 0;
    let head = if role_server { request_fields("POST", "/c02b") } else { response_fields(200) };
    let mut bytes = headers_frame(&head);
    let mut body: Vec<u8> = vec![];
    for i in 0..draw_usize(3) {
        let n = draw_usize(20);
        let p = body_bytes(n, i as u8);
        bytes.extend(frame_forms(frames::DATA, &p));
        body.extend(p);
        if draw(4) == 3 {
            bytes.extend(frame_forms(0x21 + 0x1f * 3, &[1, 2, 3]));
        }
    }
    // one run in three: the message is complete including its trailers and the cut frame comes after them
    let after_trailers = draw(3) == 2;
    if after_trailers {
        bytes.extend(headers_frame(&trailer_fields()));
        obs::count("probe.api_cut_frame_after_trailers");
    }
    let (tail, what, partial) = cut_frame(after_trailers);
    bytes.extend_from_slice(&tail);
    let mut cfg = NetCfg::drawn();
    cfg.drop_send = 0;
    cfg.drop_recv_stops = false;
    let net = Net::new(cfg);
    let peer = if role_server { CLIENT } else { SERVER };
    let h3side = 1 - peer;
    {
        let mut n = net.lock().unwrap();
        peer_control(&mut n, peer, &[]);
        if role_server {
            n.raw_open(0);
        }
        n.raw_write(0, peer, &bytes);
        n.raw_fin(0, peer);
    }
    let rec: Rc<RefCell<Obs>> = Default::default();
    let mut ex = Exec::new();
    ex.spurious = draw(3) == 1;
    if role_server {
        run_server(&net, &rec, &mut ex, 0);
    } else {
        run_client(&net, &rec, &mut ex, 0);
    }
    let stop = ex.run(&mut NetWorld(net.clone()));
    if let Some(p) = &ex.panic {
        if p.in_harness() {
            return RunOut { harness_error: Some(format!("harness panic: {} at {}", p.msg, p.loc)), ..Default::default() };
        }
        return RunOut::fail(Violation::new("C02.panic", format!("h3 panicked in task {}: {} at {}; stream [{}] + FIN", p.task, p.msg, p.loc, hexs(&bytes))).fact("at", p.loc.rsplit('/').next().unwrap_or("")).fact("cause", format!("api.cut.{what}")));
    }
    if stop == Stop::StepCap {
        return RunOut::fail(Violation::new("C02.step_cap", "no quiescence".to_string()));
    }
    let o = rec.borrow().clone();
    obs::note(|| format!("api mode: role_server={role_server} cut {what}; stream [{}] + FIN; observed {:?}", hexs(&bytes), o));
    let closes = net.lock().unwrap().closes_by(h3side);
    drop(ex);
    let mk = |rule: &str, d: String| RunOut::fail(Violation::new(rule, format!("{d}; {} stream [{}] then FIN (the last frame is cut: {what}); observed {:?}; close codes {:?}", if role_server { "request" } else { "response" }, hexs(&bytes), o, closes.iter().map(|c| code_name(*c)).collect::<Vec<_>>())).fact("role", if role_server { "server" } else { "client" }).fact("cause", format!("api.cut.{what}")).fact("position", if after_trailers { "after_trailers" } else { "in_message" }));
    let fe = SOut::Conn(COut::Local(FRAME_ERROR));
    if o.resolve != Some(Ok(())) {
        return mk("C02.api_valid_prefix_refused", "the complete HEADERS frame ahead of the cut frame was not delivered".into());
    }
    // the truncation is reported by the receive call in progress as the connection error H3_FRAME_ERROR
    let reported = match (&o.data_end, &o.trailers) {
        (Some(Err(e)), _) => Some(e.clone()),
        (_, Some(Err(e))) => Some(e.clone()),
        _ => None,
    };
    match reported {
        Some(e) if e == fe => {}
        Some(e) => return mk("C02.api_truncated_frame_wrong_error", format!("the call in progress reported {e}, expected the connection error H3_FRAME_ERROR")),
        None => return mk("C02.api_truncated_frame_accepted", "no receive call reported the truncated frame (clean end, or still waiting although the stream has ended)".into()),
    }
    // body: everything before the cut frame, plus possibly part of a cut DATA payload; nothing invented
    let mut full = body.clone();
    full.extend_from_slice(&partial);
    if !(o.body.starts_with(&body) || body.starts_with(&o.body)) || !full.starts_with(&o.body) {
        return mk("C02.api_body_wrong", format!("body bytes delivered ({}) are not a prefix of what was sent ({} complete + {} of the cut frame)", o.body.len(), body.len(), partial.len()));
    }
    match &o.driver {
        Some(Err(COut::Local(c))) if *c == FRAME_ERROR => {}
        other => return mk("C02.api_driver_not_informed", format!("the connection driver reported {:?}, expected Local(H3_FRAME_ERROR)", other.as_ref().map(|r| r.as_ref().map_err(|e| e.to_string())))),
    }
    if closes.first() != Some(&FRAME_ERROR) {
        return mk("C02.api_close_code_wrong", "the transport was not closed with H3_FRAME_ERROR first".into());
    }
    obs::count("probe.api_cut_frame_on_message_stream");
    RunOut::ok(obs::counter("net.chunk_delivered") >= 2)
}

pub fn run_control_stream() -> RunOut {
    let role_server = draw(2) == 0;
    let peer = if role_server { CLIENT } else { SERVER };
    let h3side = 1 - peer;
    // SETTINGS, optionally harmless frames, then one fixed-field frame whose payload does not match its field
    let ty = *pick(&[frames::GOAWAY, frames::GOAWAY, frames::MAX_PUSH_ID, frames::CANCEL_PUSH]);
    let kind = if draw(2) == 0 { PayKind::Long } else { PayKind::Short };
    let value = match ty {
        frames::GOAWAY => *pick(&[0u64, 4, 64, 16384, 1 << 30]),
        _ => *pick(&[0u64, 1, 63, 64, 16384]),
    };
    let payload = one_varint_payload(kind, value);
    let mut bytes = varint::encode(frames::ST_CONTROL);
    bytes.extend(frames::settings(&[]));
    if draw(3) == 0 {
        bytes.extend(frame_forms(0x21 + 0x1f * 9, &[9, 9]));
    }
    bytes.extend(frame_forms(ty, &payload));
    if draw(2) == 0 {
        // something valid behind it: the malformed frame must not be re-synchronised into this
        bytes.extend(frame_forms(0x21 + 0x1f * 2, &[]));
    }
    // admissible codes: the layout error; where the frame is also not allowed / refers to an unknown push,
    // the other rule's code as well
    let mut admissible = vec![FRAME_ERROR];
    if ty == frames::MAX_PUSH_ID && !role_server {
        admissible.push(0x105); // MAX_PUSH_ID to a client is also H3_FRAME_UNEXPECTED
    }
    if ty == frames::CANCEL_PUSH {
        admissible.push(0x108); // unknown push id
        admissible.push(0x105);
    }
    let mut cfg = NetCfg::drawn();
    cfg.drop_send = 0;
    cfg.drop_recv_stops = false;
    let net = Net::new(cfg);
    {
        let mut n = net.lock().unwrap();
        let id = n.raw_open_next(peer, true);
        n.raw_write(id, peer, &bytes);
    }
    let rec: Rc<RefCell<Obs>> = Default::default();
    let mut ex = Exec::new();
    ex.spurious = draw(3) == 1;
    if role_server {
        run_server(&net, &rec, &mut ex, 0);
    } else {
        run_client(&net, &rec, &mut ex, 0);
    }
    let stop = ex.run(&mut NetWorld(net.clone()));
    let cause = format!("api.control.{}.{}", super::c02::type_name(ty), if kind == PayKind::Long { "long" } else { "short" });
    if let Some(p) = &ex.panic {
        if p.in_harness() {
            return RunOut { harness_error: Some(format!("harness panic: {} at {}", p.msg, p.loc)), ..Default::default() };
        }
        return RunOut::fail(Violation::new("C02.panic", format!("h3 panicked in task {}: {} at {}; control stream [{}]", p.task, p.msg, p.loc, hexs(&bytes))).fact("at", p.loc.rsplit('/').next().unwrap_or("")).fact("cause", &cause));
    }
    if stop == Stop::StepCap {
        return RunOut::fail(Violation::new("C02.step_cap", "no quiescence".to_string()));
    }
    let o = rec.borrow().clone();
    let closes = net.lock().unwrap().closes_by(h3side);
    obs::note(|| format!("api mode: role_server={role_server} control stream [{}] left open; observed driver {:?} closes {:?}", hexs(&bytes), o.driver, closes));
    drop(ex);
    let mk = |rule: &str, d: String| RunOut::fail(Violation::new(rule, format!("{d}; control stream [{}] (open); driver {:?}; close codes {:?}", hexs(&bytes), o.driver.as_ref().map(|r| r.as_ref().map_err(|e| e.to_string())), closes.iter().map(|c| code_name(*c)).collect::<Vec<_>>())).fact("role", if role_server { "server" } else { "client" }).fact("cause", &cause));
    match &o.driver {
        Some(Err(COut::Local(c))) if admissible.contains(c) => {
            if closes.first() != Some(c) {
                return mk("C02.api_close_code_wrong", format!("the driver reported {} but the transport was closed with {:?} first", code_name(*c), closes.first().map(|c| code_name(*c))));
            }
        }
        None => return mk("C02.api_malformed_frame_waited_on_forever", "a complete frame whose payload does not match its field was not reported although everything has been delivered".into()),
        Some(other) => return mk("C02.api_malformed_frame_wrong_outcome", format!("expected a connection error out of {:?}, the driver reported {:?}", admissible.iter().map(|c| code_name(*c)).collect::<Vec<_>>(), other.as_ref().map_err(|e| e.to_string()))),
    }
    obs::count("probe.api_malformed_frame_on_control_stream");
    RunOut::ok(obs::counter("net.chunk_delivered") >= 2)
}

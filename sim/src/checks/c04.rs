//! C04 — control and unidirectional stream rules are enforced with the right error, and every
//! control frame is acted upon exactly once whatever happens to the endpoint's own outgoing streams.
use super::common::*;
use super::e2e::Gate;
use super::peer::*;
use crate::choice::{chance, draw, draw_usize, pick};
use crate::exec::{self, Exec, Stop};
use crate::net::{self, Net, NetCfg, NetWorld, SimBuf, SimConn, CLIENT, SERVER};
use crate::obs;
use crate::refs::frames;
use crate::refs::varint;
use crate::runner::{Check, Meta, RunCtx, RunOut, Violation};
use h3::ConnectionState;
use serde_json::json;
use std::cell::RefCell;
use std::future::poll_fn;
use std::rc::Rc;

pub struct C04;

#[derive(Clone, Debug, PartialEq)]
pub enum CTok {
    Settings(Vec<(u64, u64)>),
    SettingsDup,
    SettingsH2,
    Goaway(u64),
    CancelPush,
    MaxPushId,
    Data,
    Headers,
    PushPromise,
    H2(u64),
    Unknown(usize),
}
#[derive(Clone, Debug, PartialEq)]
pub enum Kind {
    Control,
    Push,
    Encoder,
    Decoder,
    WtUni,
    Grease,
    OtherUnknown,
    /// closed or reset before the type is complete
    NoType,
    /// opened (implicitly, or with a strict prefix of its type varint) and then left silent and open
    Silent,
}
#[derive(Clone, Copy, Debug, PartialEq)]
pub enum End {
    Open,
    Fin,
    Reset(u64),
}
#[derive(Clone, Debug)]
pub struct UniSpec {
    pub kind: Kind,
    pub bytes: Vec<u8>,
    pub frames: Vec<CTok>,
    /// number of bytes actually written before the ending (RESET may cut)
    pub sent: usize,
    pub end: End,
}

fn tok_bytes(t: &CTok) -> Vec<u8> {
    match t {
        CTok::Settings(e) => frame_forms(frames::SETTINGS, &settings_bytes(e)),
        CTok::SettingsDup => frames::settings(&[(frames::SET_MAX_FIELD_SECTION, 10), (frames::SET_MAX_FIELD_SECTION, 10)]),
        CTok::SettingsH2 => frames::settings(&[(*pick(&frames::SET_H2_RESERVED), 1)]),
        CTok::Goaway(id) => frame_forms(frames::GOAWAY, &varint_any_form(*id)),
        CTok::CancelPush => frames::frame(frames::CANCEL_PUSH, &varint::encode(0)),
        CTok::MaxPushId => frames::frame(frames::MAX_PUSH_ID, &varint::encode(5)),
        CTok::Data => frames::frame(frames::DATA, b"abc"),
        CTok::Headers => headers_frame(&request_fields("GET", "/")),
        CTok::PushPromise => {
            let mut p = varint::encode(1);
            p.extend(crate::refs::qpack::encode_plain(&request_fields("GET", "/p")));
            frames::frame(frames::PUSH_PROMISE, &p)
        }
        CTok::H2(t) => frames::frame(*t, &[1, 2, 3]),
        CTok::Unknown(n) => frame_forms(*pick(&UNKNOWN_TYPES), &vec![0x55; *n]),
    }
}

fn gen_settings() -> Vec<(u64, u64)> {
    let mut e = vec![];
    if chance(1, 2) {
        e.push((frames::SET_MAX_FIELD_SECTION, *pick(&[1000u64, 0, 16384, (1 << 62) - 1])));
    }
    if chance(1, 2) {
        e.push((frames::SET_H3_DATAGRAM, draw(2) as u64));
    }
    if chance(1, 3) {
        e.push((frames::SET_ENABLE_WT, 1));
    }
    if chance(1, 3) {
        e.push((frames::SET_CONNECT_PROTOCOL, 1));
    }
    if chance(1, 3) {
        e.push((frames::SET_WT_MAX_SESSIONS, *pick(&[1u64, 100])));
    }
    if chance(1, 3) {
        e.push((0x21 + 0x1f * draw(50) as u64, draw(100) as u64));
    }
    if chance(1, 4) {
        e.push((frames::SET_QPACK_MAX_TABLE, 0));
    }
    e
}

fn gen_control(role_server: bool) -> Vec<CTok> {
    // mostly: SETTINGS then a few legal frames, with at most one deviation
    let mut v = vec![CTok::Settings(gen_settings())];
    let n = draw_usize(4);
    for _ in 0..n {
        v.push(match draw(5) {
            0 => CTok::Unknown(draw_usize(6)),
            1 => CTok::Goaway(if role_server { *pick(&[0u64, 3, 1]) } else { *pick(&[8u64, 4, 0, 400]) }),
            2 if role_server => CTok::MaxPushId,
            3 if role_server => CTok::CancelPush,
            _ => CTok::Unknown(0),
        });
    }
    if chance(1, 2) {
        let alphabet = [CTok::Settings(vec![]), CTok::SettingsDup, CTok::SettingsH2, CTok::Goaway(*pick(&[0u64, 4, 8, 12, 1, 2, 3, 7, 400])), CTok::CancelPush, CTok::MaxPushId, CTok::Data, CTok::Headers, CTok::PushPromise, CTok::H2(*pick(&frames::H2_TYPES)), CTok::Unknown(3)];
        let t = pick(&alphabet).clone();
        let pos = draw_usize(v.len() + 1);
        match draw(3) {
            0 => v.insert(pos, t),
            1 if pos < v.len() => v[pos] = t,
            _ if pos < v.len() && v.len() > 1 => {
                v.remove(pos);
            }
            _ => v.push(t),
        }
    }
    v.truncate(6);
    v
}

fn gen_stream(kind: Kind, role_server: bool) -> UniSpec {
    let ty = match kind {
        Kind::Control => frames::ST_CONTROL,
        Kind::Push => frames::ST_PUSH,
        Kind::Encoder => frames::ST_QPACK_ENC,
        Kind::Decoder => frames::ST_QPACK_DEC,
        Kind::WtUni => frames::ST_WT_UNI,
        Kind::Grease => 0x21 + 0x1f * draw(1000) as u64,
        Kind::OtherUnknown => *pick(&[0x04u64, 0x3f, 0x40, 0x1234, 0x3fff_ffff_ffff_ffff]),
        Kind::NoType | Kind::Silent => *pick(&[0x40u64, 0x4000, 0x4000_0000]), // multi-byte type that will be cut
    };
    let mut bytes = varint_any_form(ty);
    let mut frames_ = vec![];
    let end;
    match kind {
        Kind::Control => {
            frames_ = gen_control(role_server);
            for t in &frames_ {
                bytes.extend(tok_bytes(t));
            }
            end = match draw(8) {
                0 => End::Fin,
                1 => End::Reset(*pick(&[0x100u64, 0, 0x10c])),
                _ => End::Open,
            };
        }
        Kind::Push | Kind::WtUni => {
            bytes.extend(varint_any_form(*pick(&[0u64, 4, 63, 64, 16384, 1 << 30])));
            bytes.extend(b"payload");
            end = *pick(&[End::Open, End::Fin, End::Reset(0)]);
        }
        Kind::NoType => {
            let keep = draw_usize(bytes.len()); // strictly fewer than the whole type
            bytes.truncate(keep);
            end = if draw(2) == 0 { End::Fin } else { End::Reset(*pick(&[0u64, 0x103])) };
        }
        Kind::Silent => {
            let keep = draw_usize(bytes.len()); // nothing at all, or a strict prefix of the type
            bytes.truncate(keep);
            end = End::Open;
            obs::count("probe.silent_uni_stream");
        }
        _ => {
            bytes.extend(vec![0x11; draw_usize(12)]);
            end = *pick(&[End::Open, End::Fin, End::Reset(0x10c)]);
        }
    }
    let sent = match (&end, &kind) {
        (End::Reset(_), Kind::Control) => draw_usize(bytes.len() + 1),
        _ => bytes.len(),
    };
    UniSpec { kind, bytes, frames: frames_, sent, end }
}

pub struct RefOut {
    /// admissible connection error codes; empty = no connection error
    pub causes: Vec<u64>,
    /// more than one control stream: effects cannot be attributed
    pub ambiguous: bool,
    /// codes that are admissible but not required (the triggering bytes may legitimately never be seen,
    /// or two RFC rules apply to the same frame)
    pub optional: Vec<u64>,
    /// server role: a valid GOAWAY with nothing in flight lets accept() end; what follows it on the
    /// control stream may legitimately never be looked at
    pub may_end_after_goaway: bool,
    /// anything goes (a behaviour the property leaves open was generated)
    pub unconstrained: bool,
    /// settings that must be visible (known ids) if no cause fired
    pub settings: Option<Vec<(u64, u64)>>,
    /// a valid GOAWAY must have taken effect if no cause fired
    pub goaway: bool,
}

fn reference(streams: &[UniSpec], role_server: bool) -> RefOut {
    let mut out = RefOut { causes: vec![], optional: vec![], ambiguous: false, may_end_after_goaway: false, unconstrained: false, settings: None, goaway: false };
    let (mut controls, mut encs, mut decs) = (0, 0, 0);
    let mut maybe_dups: Vec<Kind> = vec![];
    let _ = &mut controls;
    for s in streams {
        // a stream whose type never completes is invisible
        let type_complete = s.kind != Kind::NoType && s.kind != Kind::Silent && varint::decode(&s.bytes[..s.sent]).is_some();
        match s.kind {
            Kind::Control => {
                // under RESET the type itself may be overtaken: then nothing can be demanded
                if let End::Reset(_) = s.end {
                    out.unconstrained = true;
                }
                if !type_complete {
                    continue;
                }
                controls += 1;
                if controls == 2 {
                    // which of two control streams is resolved first depends on the schedule: the other one
                    // is the H3_STREAM_CREATION_ERROR; either may also be processed up to its own first error
                    out.causes.push(0x103);
                    out.ambiguous = true;
                }
                let mut first = true;
                let mut last_goaway: Option<u64> = None;
                let mut errored = false;
                for t in &s.frames {
                    let cause = match t {
                        CTok::Unknown(_) => {
                            if first {
                                // unknown frame before SETTINGS: RFC wording and h3 differ; property lists both rules
                                out.unconstrained = true;
                            }
                            None
                        }
                        CTok::Settings(e) if first => {
                            out.settings = Some(e.iter().filter(|(k, _)| frames::is_known_setting(*k)).cloned().collect());
                            None
                        }
                        CTok::SettingsDup | CTok::SettingsH2 if first => Some(0x109),
                        CTok::H2(_) if first => {
                            out.optional.push(0x105); // both the HTTP/2-type rule and the first-frame rule apply
                            Some(0x10a)
                        }
                        _ if first => Some(0x10a),
                        CTok::Settings(_) => Some(0x105),
                        CTok::SettingsDup | CTok::SettingsH2 => {
                            out.optional.push(0x109); // out of place and malformed: either code
                            Some(0x105)
                        }
                        CTok::Data | CTok::Headers | CTok::PushPromise | CTok::H2(_) => Some(0x105),
                        CTok::MaxPushId => {
                            if role_server {
                                None
                            } else {
                                Some(0x105)
                            }
                        }
                        CTok::CancelPush => {
                            if !role_server {
                                out.unconstrained = true; // not listed in the property for clients
                            }
                            None
                        }
                        CTok::Goaway(id) => {
                            if !role_server && id % 4 != 0 {
                                Some(0x108)
                            } else if last_goaway.map(|p| *id > p).unwrap_or(false) {
                                Some(0x108)
                            } else {
                                last_goaway = Some(*id);
                                out.goaway = true;
                                if role_server {
                                    out.may_end_after_goaway = true;
                                }
                                None
                            }
                        }
                    };
                    if !matches!(t, CTok::Unknown(_)) {
                        first = false;
                    }
                    if let Some(c) = cause {
                        out.causes.push(c);
                        errored = true;
                        break;
                    }
                }
                if !errored && s.end != End::Open {
                    out.causes.push(0x104);
                }
            }
            Kind::Encoder | Kind::Decoder => {
                if type_complete {
                    let cnt = if s.kind == Kind::Encoder { &mut encs } else { &mut decs };
                    // a RESET may overtake the type byte: then the stream is never identified
                    if let End::Reset(_) = s.end {
                        if *cnt >= 1 {
                            out.optional.push(0x103);
                        }
                        // it may or may not count as the first one for a later duplicate
                        maybe_dups.push(s.kind.clone());
                    } else {
                        *cnt += 1;
                        if *cnt == 2 {
                            out.causes.push(0x103);
                        }
                    }
                }
            }
            Kind::Push => out.unconstrained = true, // not constrained by C04 (DESIGN §7)
            Kind::WtUni | Kind::Grease | Kind::OtherUnknown | Kind::NoType | Kind::Silent => {}
        }
    }
    for k in &maybe_dups {
        let definite = if *k == Kind::Encoder { encs } else { decs };
        let others = maybe_dups.iter().filter(|x| *x == k).count();
        if definite >= 1 || others >= 2 {
            out.optional.push(0x103);
        }
    }
    out
}

#[derive(Default, Debug, Clone, PartialEq)]
pub struct Observed {
    pub driver: Option<Result<(), COut>>,
    pub build_err: Option<COut>,
    pub settings: Vec<(u64, u64)>,
    pub probe: Option<Result<(), SOut>>,
    pub close: Option<u64>,
    /// driver result as of the first quiescence (everything the peer sent has been delivered by then)
    pub driver_q1: Option<Result<(), COut>>,
    pub closes_all: Vec<u64>,
}

pub fn read_settings<T: ConnectionState>(c: &T) -> Vec<(u64, u64)> {
    let s = c.settings();
    vec![
        (frames::SET_MAX_FIELD_SECTION, s.verif_max_field_section_size()),
        (frames::SET_CONNECT_PROTOCOL, s.enable_extended_connect() as u64),
        (frames::SET_H3_DATAGRAM, s.enable_datagram() as u64),
        (frames::SET_ENABLE_WT, s.enable_webtransport() as u64),
        (frames::SET_WT_MAX_SESSIONS, s.verif_max_webtransport_sessions()),
    ]
}

fn drive(streams: &[UniSpec], role_server: bool, cfg: NetCfg, credit: Option<u64>, grease: bool, order: &[usize], stall_grease: bool) -> Result<Observed, Violation> {
    let net = Net::new(cfg);
    let h3side = if role_server { SERVER } else { CLIENT };
    let peer = 1 - h3side;
    {
        let mut n = net.lock().unwrap();
        n.sides[h3side as usize].uni_credit = credit;
        if stall_grease {
            // the peer never reads h3's 4th outgoing unidirectional stream (the grease stream) and its window is
            // smaller than what h3 writes there: writes on it stall for ever once it has been opened
            let id = (3u64 << 2) | 2 | h3side as u64;
            n.stall_writes(id, h3side, true);
        }
        for &i in order {
            let s = &streams[i];
            let id = n.raw_open_next(peer, true);
            n.raw_write(id, peer, &s.bytes[..s.sent]);
            match s.end {
                End::Fin => n.raw_fin(id, peer),
                End::Reset(c) => n.raw_reset(id, peer, c),
                End::Open => {}
            }
        }
    }
    let rec: Rc<RefCell<Observed>> = Default::default();
    let mut ex = Exec::new();
    ex.spurious = draw(3) == 1;
    let gate = Rc::new(Gate::default());
    let conn: SimConn = net::conn(&net, h3side);
    let r = rec.clone();
    let g = gate.clone();
    if role_server {
        ex.spawn("srv", async move {
            let mut b = h3::server::builder();
            b.send_grease(grease);
            b.enable_webtransport(draw(2) == 1);
            let mut c = match b.build::<_, SimBuf>(conn).await {
                Ok(c) => c,
                Err(e) => {
                    r.borrow_mut().build_err = Some(cout(&e));
                    return;
                }
            };
            let res = {
                let mut acc = Box::pin(c.accept());
                poll_fn(|cx| {
                    if let std::task::Poll::Ready(x) = std::future::Future::poll(acc.as_mut(), cx) {
                        return std::task::Poll::Ready(Some(x.map(|o| o.is_some())));
                    }
                    if g.is_open() {
                        return std::task::Poll::Ready(None);
                    }
                    g.register(cx);
                    std::task::Poll::Pending
                })
                .await
            };
            let mut o = r.borrow_mut();
            o.settings = read_settings(&c);
            match res {
                Some(Ok(false)) => o.driver = Some(Ok(())),
                Some(Ok(true)) => {}
                Some(Err(e)) => o.driver = Some(Err(cout(&e))),
                None => {}
            }
        });
    } else {
        ex.spawn("cli", async move {
            let mut b = h3::client::builder();
            b.send_grease(grease);
            let (mut driver, mut sr) = match b.build::<_, _, SimBuf>(conn).await {
                Ok(x) => x,
                Err(e) => {
                    r.borrow_mut().build_err = Some(cout(&e));
                    return;
                }
            };
            let r2 = r.clone();
            let g2 = g.clone();
            exec::spawn("drv", async move {
                let res = poll_fn(|cx| {
                    if let std::task::Poll::Ready(e) = driver.poll_close(cx) {
                        return std::task::Poll::Ready(Some(e));
                    }
                    if g2.is_open() {
                        return std::task::Poll::Ready(None);
                    }
                    g2.register(cx);
                    std::task::Poll::Pending
                })
                .await;
                let mut o = r2.borrow_mut();
                o.settings = read_settings(&driver);
                if let Some(e) = res {
                    o.driver = Some(Err(cout(&e)));
                }
                drop(o);
                // keep the driver alive so that dropping it does not close the connection before the probe
                std::future::pending::<()>().await;
                drop(driver);
            });
            // second phase: probe whether new requests are still allowed
            g.wait().await;
            let req = http::Request::builder().method("GET").uri("https://example.com/probe").body(()).unwrap();
            let res = sr.send_request(req).await;
            r.borrow_mut().probe = Some(res.map(|_| ()).map_err(|e| sout(&e)));
            std::future::pending::<()>().await;
            drop(sr);
        });
    }
    let stop = ex.run(&mut NetWorld(net.clone()));
    if stop == Stop::Quiescent && ex.panic.is_none() {
        obs::ev("phase.probe", 0, 0);
        // the close code must be judged before the probe phase tears things down
        {
            let mut r = rec.borrow_mut();
            r.close = net.lock().unwrap().closes_by(h3side).first().copied();
            r.driver_q1 = r.driver.clone();
        }
        gate.open();
        ex.run(&mut NetWorld(net.clone()));
        rec.borrow_mut().closes_all = net.lock().unwrap().closes_by(h3side);
    }
    if let Some(p) = &ex.panic {
        if p.in_harness() {
            return Err(Violation::new("HARNESS", format!("harness panic: {} at {}", p.msg, p.loc)));
        }
        return Err(Violation::new("C04.panic", format!("h3 panicked in task {}: {} at {}", p.task, p.msg, p.loc)).fact("at", p.loc.rsplit('/').next().unwrap_or("")));
    }
    if ex.steps >= ex.max_steps {
        return Err(Violation::new("C04.step_cap", "no quiescence within the step cap".to_string()));
    }
    let o = rec.borrow().clone();
    Ok(o)
}

fn judge(o: &Observed, r: &RefOut, role_server: bool) -> Result<(), Violation> {
    let role = if role_server { "server" } else { "client" };
    let mk = |rule: &str, d: String| Violation::new(rule, d).fact("role", role);
    if let Some(e) = &o.build_err {
        // an error can be raised while setup is still in progress only by the transport; none is injected here
        return Err(mk("C04.setup_failed", format!("connection setup failed with {e}")));
    }
    if r.unconstrained {
        return Ok(());
    }
    let code_of = |d: &Option<Result<(), COut>>| -> Result<Option<u64>, Violation> {
        match d {
            Some(Err(COut::Local(c))) => Ok(Some(*c)),
            Some(Err(other)) => Err(mk("C04.unexpected_driver_error", format!("driver failed with {other}, which is not a locally detected error"))),
            _ => Ok(None),
        }
    };
    let got_code = code_of(&o.driver_q1)?;
    let late_code = code_of(&o.driver)?;
    if got_code.is_none() && late_code.is_some() {
        // the driver only noticed when it was polled again for an unrelated reason: it was parked
        // although the bytes that cause the error had been delivered
        return Err(mk("C04.driver_parked_with_undelivered_work", format!("at quiescence the driver had reported nothing; polled again later it reported {}: control-stream input was left unprocessed", code_name(late_code.unwrap()))));
    }
    if r.causes.is_empty() && !r.optional.is_empty() {
        if let Some(c) = got_code {
            if r.optional.contains(&c) && o.close == Some(c) {
                return Ok(());
            }
        }
    }
    if r.causes.is_empty() {
        if let Some(c) = got_code {
            return Err(mk("C04.spurious_connection_error", format!("driver reported {} although the peer did nothing wrong", code_name(c))).fact("code", code_name(c)));
        }
        if let Some(c) = o.close {
            if c != 0x100 {
                return Err(mk("C04.spurious_connection_error", format!("connection closed with {} although the peer did nothing wrong", code_name(c))).fact("code", code_name(c)));
            }
        }
        // effects: every control frame acted upon exactly once
        if r.ambiguous {
            return Ok(());
        }
        if let Some(exp) = &r.settings {
            for (k, v) in exp {
                if let Some((_, got)) = o.settings.iter().find(|(kk, _)| kk == k) {
                    if got != v {
                        return Err(mk("C04.settings_not_applied", format!("setting {k:#x}: peer sent {v}, applied value is {got} (all applied: {:?})", o.settings)));
                    }
                }
            }
        }
        if r.goaway {
            if role_server {
                if o.driver_q1 != Some(Ok(())) {
                    return Err(mk("C04.goaway_not_acted_on", format!("the peer's GOAWAY was delivered but accept() did not end (driver at quiescence {:?}, later {:?})", o.driver_q1, o.driver)));
                }
            } else if o.probe != Some(Err(SOut::RemoteClosing)) {
                return Err(mk("C04.goaway_not_acted_on", format!("the peer's GOAWAY was delivered but a new request was not refused as remote-closing: {:?}", o.probe)));
            }
        } else if role_server {
            if o.driver == Some(Ok(())) {
                return Err(mk("C04.accept_ended_without_goaway", "accept() returned None although no GOAWAY was sent".to_string()));
            }
        } else if let Some(Err(e)) = o.probe.as_ref().filter(|p| !matches!(p, Err(SOut::HeaderTooBig(..)))) {
            return Err(mk("C04.request_refused_without_goaway", format!("a new request failed with {e} although no GOAWAY was sent and no error occurred")));
        }
        return Ok(());
    }
    if r.may_end_after_goaway && o.driver_q1 == Some(Ok(())) {
        return Ok(());
    }
    // at least one cause: the outcome must be one of the admissible codes, reported and used for the close
    let names: Vec<String> = r.causes.iter().map(|c| code_name(*c)).collect();
    match got_code {
        None => Err(mk("C04.violation_not_detected", format!("expected a connection error in {:?}; driver {:?}, close {:?}", names, o.driver_q1, o.close.map(code_name))).fact("expected", names.join("|"))),
        Some(c) if !r.causes.contains(&c) && !r.optional.contains(&c) => Err(mk("C04.wrong_error_code", format!("driver reported {}, admissible {:?}", code_name(c), names)).fact("expected", names.join("|")).fact("got", code_name(c))),
        Some(c) => {
            if o.close != Some(c) {
                return Err(mk("C04.close_code_mismatch", format!("driver reported {} but the connection was closed with {:?}", code_name(c), o.close.map(code_name))));
            }
            Ok(())
        }
    }
}

impl Check for C04 {
    fn id(&self) -> &'static str {
        "C04"
    }
    fn meta(&self) -> Meta {
        Meta {
            level: "exploration",
            rule: "peer behaviours of 1-5 unidirectional streams (control, push, QPACK encoder/decoder, WebTransport-uni, grease, other unknown, closed/reset before the type is complete, opened and left silent with no byte or a strict prefix of its type; type varints in every length form) whose control stream carries SETTINGS + legal frames with at most one deviation over {second/duplicate/reserved SETTINGS, GOAWAY ids, CANCEL_PUSH, MAX_PUSH_ID, DATA, HEADERS, PUSH_PROMISE, HTTP/2 types, unknown}, FIN or RESET at a drawn position; one run in ten is the template control + encoder + decoder, all identified, then a late duplicate of one of them; both roles; arrival order and chunking drawn, each behaviour replayed under a second chunking; the endpoint's own outgoing side suffers drawn write pends/partial acceptance and stream-credit shortage (credit for the 4th, grease, stream withheld for ever or granted late) or, with credit available, a grease stream whose write stalls for ever; non-trivial = a control stream with >= 2 frames was delivered in >= 2 chunks or credit was short; distinct = distinct schedule signatures",
            real: &["h3 connection driver (ConnectionInner::poll_control / poll_accept_recv / grease stream)", "h3 server and client Connection", "AcceptRecvStream, FrameStream, frame decoder, settings application"],
            stub: &["QUIC transport (SimQuic)", "executor (simexec)", "peer (script of raw uni-stream actions)", "application (accept loop / poll_close driver + a probing request)"],
            assumptions: &["unknown frame before SETTINGS, CANCEL_PUSH to a client, push streams and a RESET control stream whose type may be overtaken are left unconstrained", "two independent causes in one run admit either code"],
            quick_runs: 800_000,
            thorough_runs: 32_000_000,
        }
    }
    fn run(&self, ctx: &RunCtx) -> RunOut {
        let role_server = draw(2) == 0;
        let n = 1 + draw_usize(5);
        let mut streams = vec![];
        let mut have_control = false;
        for _ in 0..n {
            let kind = match draw(12) {
                0..=3 if !have_control => Kind::Control,
                0 => Kind::Control,
                1 | 2 => Kind::Grease,
                3 => Kind::OtherUnknown,
                4 => Kind::Encoder,
                5 => Kind::Decoder,
                6 => Kind::WtUni,
                7 => Kind::Push,
                8 => Kind::NoType,
                9 => Kind::Encoder,
                10 => Kind::Silent,
                _ => Kind::Control,
            };
            if kind == Kind::Control {
                have_control = true;
            }
            streams.push(gen_stream(kind, role_server));
        }
        // one run in ten: the three regular streams first, completely identified, and only then a duplicate
        // of one of them (a late duplicate is detected by other code paths than one that arrives together
        // with the originals)
        let late_duplicate = draw(10) == 9;
        if late_duplicate {
            streams.clear();
            for k in [Kind::Control, Kind::Encoder, Kind::Decoder, pick(&[Kind::Control, Kind::Encoder, Kind::Decoder]).clone()] {
                streams.push(gen_stream(k, role_server));
            }
            if draw(2) == 1 {
                streams.push(gen_stream(pick(&[Kind::Grease, Kind::Silent, Kind::WtUni]).clone(), role_server));
            }
            obs::count("probe.late_duplicate_critical_stream");
        }
        let n = streams.len();
        // arrival order is drawn via the order in which the peer opens them + the scheduler
        let mut order: Vec<usize> = (0..n).collect();
        for i in (1..n).rev() {
            let j = draw_usize(i + 1);
            if !late_duplicate {
                order.swap(i, j);
            }
        }
        let grease = draw(3) != 2;
        let credit = match draw(4) {
            0 => None,
            1 => Some(3), // the grease stream can never open
            _ => Some(draw(4) as u64),
        };
        // one run in four with grease on and stream credit available: the grease stream opens but its write never
        // completes (a different kind of back-pressure on the endpoint's own outgoing side than missing credit)
        let stall_grease = grease && credit != Some(3) && draw(4) == 3;
        if stall_grease {
            obs::count("probe.grease_stream_write_stalled");
        }
        let refo = reference(&streams, role_server);
        let mut outs = vec![];
        for j in 0..2 {
            let mut cfg = NetCfg::drawn();
            cfg.in_order_accept = true; // arrival order is the open order drawn above
            cfg.auto_grant = credit != Some(3);
            cfg.drop_send = 0;
            cfg.drop_recv_stops = false;
            if j == 1 && cfg.chunk_mode == 0 {
                cfg.chunk_mode = 2;
            }
            obs::note(|| format!("--- pass {j}: role_server={role_server} grease={grease} credit={credit:?} streams={:?}", streams.iter().map(|s| (s.kind.clone(), s.frames.clone(), s.end.clone(), s.sent, s.bytes.len())).collect::<Vec<_>>()));
            let o = match drive(&streams, role_server, cfg, credit, grease, &order, stall_grease) {
                Ok(o) => o,
                Err(v) if v.rule == "HARNESS" => return RunOut { harness_error: Some(v.detail), ..Default::default() },
                Err(v) => return RunOut::fail(v.fact("role", if role_server { "server" } else { "client" })),
            };
            obs::note(|| format!("observed {o:?}; reference causes {:?} unconstrained {} goaway {}", refo.causes, refo.unconstrained, refo.goaway));
            if let Err(v) = judge(&o, &refo, role_server) {
                let mut v = v.fact("own_streams", match credit {
                    Some(_) if grease => "grease_stream_open_pended",
                    _ => "no_shortage",
                });
                v.detail = format!("{}; streams {:?}", v.detail, streams.iter().map(|s| (s.kind.clone(), s.frames.clone(), s.end.clone())).collect::<Vec<_>>());
                return RunOut::fail(v);
            }
            outs.push(o);
        }
        if !refo.unconstrained && refo.causes.len() <= 1 && refo.optional.is_empty() && !refo.may_end_after_goaway && (outs[0].driver_q1 != outs[1].driver_q1 || outs[0].close != outs[1].close) {
            return RunOut::fail(Violation::new("C04.chunking_dependent", format!("same peer behaviour, different outcomes under two chunkings: {:?} vs {:?}", outs[0], outs[1])).fact("role", if role_server { "server" } else { "client" }));
        }
        if credit == Some(3) && grease && refo.goaway {
            obs::count("probe.goaway_while_grease_stream_blocked");
        }
        if !refo.causes.is_empty() {
            obs::count("probe.peer_violation_scripted");
        }
        let nontrivial = streams.iter().any(|s| s.kind == Kind::Control && s.frames.len() >= 2) && (obs::counter("net.chunk_delivered") >= 2 || obs::counter("net.open_pended") > 0);
        let mut out = RunOut::ok(nontrivial);
        if ctx.want_sample {
            out.sample = Some(json!({"role": if role_server {"server"} else {"client"}, "streams": streams.iter().map(|s| json!({"kind": format!("{:?}", s.kind), "frames": format!("{:?}", s.frames), "end": format!("{:?}", s.end)})).collect::<Vec<_>>(), "own_uni_credit": format!("{credit:?}"), "grease": grease, "admissible_codes": refo.causes.iter().map(|c| code_name(*c)).collect::<Vec<_>>(), "observed": format!("{:?}", outs[0])}));
        }
        out
    }
}

//! C10 — field-section size limit is enforced exactly, in both directions.
use super::common::*;
use super::e2e::Gate;
use super::peer::*;
use crate::choice::{chance, draw, draw_usize, pick};
use crate::exec::{self, Exec, Stop};
use crate::net::{self, Net, NetCfg, NetWorld, SimBuf, SimConn, CLIENT, SERVER};
use crate::obs;
use crate::refs::frames;
use crate::refs::qpack::{self, Field};
use crate::runner::{Check, Meta, RunCtx, RunOut, Violation};
use h3::ConnectionState;
use serde_json::json;
use std::cell::RefCell;
use std::future::poll_fn;
use std::rc::Rc;

pub struct C10;

const DEFAULT: u64 = (1 << 62) - 1;
const LIMITS: [u64; 12] = [0, 1, 41, 42, 43, 100, 300, 1000, 16383, 16384, 1 << 30, DEFAULT];

/// pad a field list so that its RFC 9114 §4.2.2 size is exactly `target` (if reachable)
fn pad_exact(fields: &mut Vec<Field>, target: u64) -> bool {
    let cur = qpack::section_size(fields);
    if target < cur + 32 + 1 {
        return target == cur;
    }
    // name "p" (1) + value k + 32
    let k = (target - cur - 33) as usize;
    if k > 200_000 {
        return false;
    }
    // the padding byte is drawn: bytes whose Huffman code is shorter than, as long as, or much longer
    // than 8 bits (obs-text, backslash), so that the encoded length and the decoded size differ in
    // both directions - the limit is about the decoded size (RFC 9114 4.2.2), whatever the encoding
    let b = *pick(&[b'v', 0xe9u8, b'\\', b'0', 0xffu8]);
    if b != b'v' {
        obs::count("probe.padding_expands_under_huffman");
    }
    // one section in three: the padding is two lines with the same name (one name, two values in the HeaderMap):
    // the size rule counts every line
    if k >= 33 + 2 && draw(3) == 2 {
        let k1 = 1 + draw_usize(k - 33 - 1);
        fields.push((b"p".to_vec(), vec![b; k1]));
        fields.push((b"p".to_vec(), vec![b; k - 33 - k1]));
        obs::count("probe.one_name_with_two_values");
        return true;
    }
    fields.push((b"p".to_vec(), vec![b; k]));
    true
}

fn sweep_target(limit: u64) -> u64 {
    match draw(7) {
        0 => limit,
        1 => limit + 1,
        2 => limit.saturating_sub(1),
        3 => limit + 2,
        4 => limit.saturating_sub(2),
        5 => limit / 2,
        _ => limit.saturating_add(*pick(&[10u64, 100, 5000])),
    }
}

#[derive(Clone, Debug, Default)]
struct Obs {
    headers: Option<Result<(), SOut>>,
    trailers: Option<Result<bool, SOut>>,
    other: Option<Result<(), SOut>>,
    send: Option<Result<(), SOut>>,
    send_trailers: Option<Result<(), SOut>>,
    limit_before: u64,
    limit_after: u64,
    t_limit_before: u64,
    t_limit_after: u64,
    driver: Option<String>,
    build_err: Option<String>,
}

fn status_on_wire(n: &Net, id: u64, side: u8) -> Option<String> {
    let (fr, _) = frames::segment(n.sent(id, side));
    fr.iter().find(|f| f.ty == frames::HEADERS).and_then(|f| qpack::decode(&f.payload).ok()).and_then(|fs| fs.iter().find(|(n, _)| n == b":status").map(|(_, v)| String::from_utf8_lossy(v).into_owned()))
}
fn headers_sizes_on_wire(n: &Net, id: u64, side: u8) -> Result<Vec<u64>, String> {
    let (fr, _) = frames::segment(n.sent(id, side));
    fr.iter().filter(|f| f.ty == frames::HEADERS).map(|f| qpack::decode(&f.payload).map(|fs| qpack::section_size(&fs)).map_err(|e| e.to_string())).collect()
}

/// read the body (results into rec[k].other on failure); evaluates to false if it failed
macro_rules! c10_body {
    ($s:expr, $rec:expr, $k:expr) => {{
        let mut ok = true;
        loop {
            match $s.recv_data().await {
                Ok(Some(_)) => {}
                Ok(None) => break,
                Err(e) => {
                    $rec.borrow_mut()[$k].other = Some(Err(sout(&e)));
                    ok = false;
                    break;
                }
            }
        }
        ok
    }};
}
macro_rules! c10_trailers {
    ($s:expr, $rec:expr, $k:expr) => {{
        let t = $s.recv_trailers().await;
        $rec.borrow_mut()[$k].trailers = Some(t.map(|t| t.is_some()).map_err(|e| sout(&e)));
    }};
}

// -------------------------------------------------------------------------------- receive side

fn run_receive(ctx: &RunCtx) -> RunOut {
    let role_server = draw(2) == 0;
    // the stream under test may be split() by the application: 0 never, 1 before anything is received on it,
    // 2 after the body and before the trailers (the halves must keep enforcing the endpoint's own limit)
    let split_mode = draw(3);
    if split_mode != 0 {
        obs::count("probe.receive_on_split_stream");
    }
    let limit = *pick(&LIMITS);
    let peer_limit = *pick(&[DEFAULT, 1000, 42, 41, 0]); // what the peer advertises (matters for the 431 answer)
    let in_trailers = chance(1, 3);
    // the message under test
    let mut head = if role_server { request_fields("POST", "/c10") } else { response_fields(200) };
    let mut trailers: Vec<Field> = vec![f("t", "1")];
    let target = sweep_target(limit);
    let exact = if in_trailers {
        trailers.clear();
        pad_exact(&mut trailers, target.max(33))
    } else {
        pad_exact(&mut head, target)
    };
    let _ = exact;
    let size = if in_trailers { qpack::section_size(&trailers) } else { qpack::section_size(&head) };
    let head_size = qpack::section_size(&head);
    let mut bytes = frames::frame(frames::HEADERS, &qpack::encode(&head, qpack::Style::Drawn, |n| draw(n)));
    bytes.extend(frames::frame(frames::DATA, b"body"));
    bytes.extend(frames::frame(frames::HEADERS, &qpack::encode(&trailers, qpack::Style::Drawn, |n| draw(n))));
    // a small neighbour that must be unaffected (only judged when it fits)
    let other_fields = if role_server { request_fields("GET", "/other") } else { response_fields(204) };
    let other_size = qpack::section_size(&other_fields);
    let other_bytes = headers_frame(&other_fields);

    let cfg = NetCfg::drawn();
    let net = Net::new(cfg);
    let peer = if role_server { CLIENT } else { SERVER };
    let h3side = 1 - peer;
    {
        let mut n = net.lock().unwrap();
        if peer_limit == DEFAULT && chance(1, 2) {
            peer_control(&mut n, peer, &[]);
        } else {
            peer_control(&mut n, peer, &[(frames::SET_MAX_FIELD_SECTION, peer_limit)]);
        }
        if role_server {
            n.raw_open(0);
            n.raw_open(4);
        }
        n.raw_write(0, peer, &bytes);
        n.raw_fin(0, peer);
        n.raw_write(4, peer, &other_bytes);
        n.raw_fin(4, peer);
    }
    let rec: Rc<RefCell<Vec<Obs>>> = Rc::new(RefCell::new(vec![Obs::default(), Obs::default()]));
    let conn_rec: Rc<RefCell<Obs>> = Default::default();
    let done = Rc::new(Gate::default());
    let mut ex = Exec::new();
    ex.spurious = draw(3) == 1;
    let conn: SimConn = net::conn(&net, h3side);
    if role_server {
        let rec = rec.clone();
        let cr = conn_rec.clone();
        let done = done.clone();
        ex.spawn("server", async move {
            let mut b = h3::server::builder();
            b.send_grease(draw(2) == 1);
            b.max_field_section_size(limit);
            let mut c = match b.build::<_, SimBuf>(conn).await {
                Ok(c) => c,
                Err(e) => {
                    cr.borrow_mut().build_err = Some(e.to_string());
                    return;
                }
            };
            loop {
                match super::e2e::accept_or_gate(&mut c, Some(&done)).await {
                    super::e2e::Accepted::Gate => return,
                    super::e2e::Accepted::Done => return,
                    super::e2e::Accepted::Err(e) => {
                        cr.borrow_mut().driver = Some(cout(&e).to_string());
                        return;
                    }
                    super::e2e::Accepted::Request(resolver) => {
                        let k = (resolver.frame_stream.id().into_inner() >> 2) as usize;
                        let rec = rec.clone();
                        exec::spawn(format!("req{k}"), async move {
                            // the client's limit as this endpoint knows it when the application asks for the request
                            // (the settings cell is write-once: what is in force now stays in force)
                            rec.borrow_mut()[k].limit_before = resolver.settings().verif_max_field_section_size();
                            match resolver.resolve_request().await {
                                Err(e) => rec.borrow_mut()[k].headers = Some(Err(sout(&e))),
                                Ok((_r, mut s)) => {
                                    rec.borrow_mut()[k].headers = Some(Ok(()));
                                    let resp = http::Response::builder().status(200).body(()).unwrap();
                                    if split_mode == 1 {
                                        let (mut tx, mut rx) = s.split();
                                        if !c10_body!(rx, rec, k) {
                                            return;
                                        }
                                        c10_trailers!(rx, rec, k);
                                        let _ = tx.send_response(resp).await;
                                        let _ = tx.finish().await;
                                    } else if split_mode == 2 {
                                        if !c10_body!(s, rec, k) {
                                            return;
                                        }
                                        let (mut tx, mut rx) = s.split();
                                        c10_trailers!(rx, rec, k);
                                        let _ = tx.send_response(resp).await;
                                        let _ = tx.finish().await;
                                    } else {
                                        if !c10_body!(s, rec, k) {
                                            return;
                                        }
                                        c10_trailers!(s, rec, k);
                                        let _ = s.send_response(resp).await;
                                        let _ = s.finish().await;
                                    }
                                }
                            }
                        });
                    }
                }
            }
        });
    } else {
        let rec = rec.clone();
        let cr = conn_rec.clone();
        let done = done.clone();
        ex.spawn("client", async move {
            let mut b = h3::client::builder();
            b.send_grease(draw(2) == 1);
            b.max_field_section_size(limit);
            let (mut driver, mut sr) = match b.build::<_, _, SimBuf>(conn).await {
                Ok(x) => x,
                Err(e) => {
                    cr.borrow_mut().build_err = Some(e.to_string());
                    return;
                }
            };
            let cr2 = cr.clone();
            let done2 = done.clone();
            exec::spawn("driver", async move {
                let r = poll_fn(|cx| {
                    if let std::task::Poll::Ready(e) = driver.poll_close(cx) {
                        return std::task::Poll::Ready(Some(e));
                    }
                    if done2.is_open() {
                        return std::task::Poll::Ready(None);
                    }
                    done2.register(cx);
                    std::task::Poll::Pending
                })
                .await;
                if let Some(e) = r {
                    cr2.borrow_mut().driver = Some(cout(&e).to_string());
                }
                std::future::pending::<()>().await;
                drop(driver);
            });
            for k in 0..2usize {
                // tiny requests so that the peer's advertised limit never stops them... unless it is tiny too
                let req = http::Request::builder().method("GET").uri("https://e.x/").body(()).unwrap();
                let mut s = match sr.send_request(req).await {
                    Ok(s) => s,
                    Err(e) => {
                        rec.borrow_mut()[k].send = Some(Err(sout(&e)));
                        continue;
                    }
                };
                let rec = rec.clone();
                exec::spawn(format!("req{k}"), async move {
                    if split_mode == 1 {
                        let (mut tx, mut rx) = s.split();
                        let _ = tx.finish().await;
                        match rx.recv_response().await {
                            Err(e) => rec.borrow_mut()[k].headers = Some(Err(sout(&e))),
                            Ok(_) => {
                                rec.borrow_mut()[k].headers = Some(Ok(()));
                                if c10_body!(rx, rec, k) {
                                    c10_trailers!(rx, rec, k);
                                }
                            }
                        }
                        std::future::pending::<()>().await;
                        drop(tx);
                        return;
                    }
                    let _ = s.finish().await;
                    match s.recv_response().await {
                        Err(e) => rec.borrow_mut()[k].headers = Some(Err(sout(&e))),
                        Ok(_) => {
                            rec.borrow_mut()[k].headers = Some(Ok(()));
                            if !c10_body!(s, rec, k) {
                                return;
                            }
                            if split_mode == 2 {
                                let (tx, mut rx) = s.split();
                                c10_trailers!(rx, rec, k);
                                std::future::pending::<()>().await;
                                drop(tx);
                            } else {
                                c10_trailers!(s, rec, k);
                            }
                        }
                    }
                });
            }
            done.wait().await;
            drop(sr);
        });
    }
    let stop = ex.run(&mut NetWorld(net.clone()));
    if let Some(r) = panic_out(&ex, "C10") {
        return r;
    }
    if stop == Stop::StepCap {
        return RunOut::fail(Violation::new("C10.step_cap", "no quiescence".to_string()));
    }
    let o = rec.borrow().clone();
    let c = conn_rec.borrow().clone();
    let n = net.lock().unwrap();
    let role = if role_server { "server" } else { "client" };
    let what = if in_trailers { "trailers" } else { "headers" };
    let mk = |rule: &str, d: String| RunOut::fail(Violation::new(rule, format!("{d}; limit {limit}, section size {size} ({what}), peer advertises {peer_limit}; observed {:?}", o[0])).fact("role", role).fact("section", what).fact("dir", "receive"));
    obs::note(|| format!("receive role={role} limit={limit} size={size} in_trailers={in_trailers} peer_limit={peer_limit} observed {:?} conn {:?}", o, c));
    if let Some(e) = &c.build_err {
        return mk("C10.setup_failed", e.clone());
    }
    // (client role) if the peer's limit refuses even the tiny request there is nothing to judge
    if !role_server && o[0].send.is_some() {
        done.open();
        drop(n);
        ex.run(&mut NetWorld(net.clone()));
        return RunOut::ok(false);
    }
    let closes = n.closes_by(h3side);
    if !closes.is_empty() || c.driver.is_some() {
        return mk("C10.connection_error", format!("connection closed {:?} / driver {:?}", closes.iter().map(|c| code_name(*c)).collect::<Vec<_>>(), c.driver));
    }
    let too_big = |r: &Option<Result<(), SOut>>| matches!(r, Some(Err(SOut::HeaderTooBig(_, _))));
    if !in_trailers {
        let accept = size <= limit;
        match (accept, &o[0].headers) {
            (true, Some(Ok(()))) => {}
            (false, r) if too_big(r) => {
                if role_server {
                    // 431 unless that response (size 42) would itself exceed the client's limit in force
                    let st = status_on_wire(&n, 0, SERVER);
                    let can = 42 <= peer_limit;
                    if can && st.as_deref() != Some("431") {
                        return mk("C10.no_431", format!("oversized request refused without a 431 response on the wire (status {:?})", st));
                    }
                    // the scripted peer's SETTINGS were written before anything else, but whether h3 had applied them
                    // when it answered is schedule dependent: certain only if they were in force before the call
                    if !can && o[0].limit_before == peer_limit {
                        obs::count("probe.oversized_request_while_client_limit_below_431_in_force");
                    }
                    if !can && st.is_some() && o[0].limit_before == peer_limit {
                        return mk("C10.sent_431_over_peer_limit", format!("a 431 response (size 42) was sent although the client's limit is {peer_limit}"));
                    }
                }
            }
            (true, r) => return mk("C10.section_within_limit_refused", format!("section of size {size} <= limit {limit} was not accepted: {:?}", r)).map_fact("boundary", &(size as i128 - limit as i128).to_string()),
            (false, r) => return mk("C10.section_over_limit_accepted", format!("section of size {size} > limit {limit} was not refused as too big: {:?}", r)).map_fact("boundary", &(size as i128 - limit as i128).to_string()),
        }
    } else if head_size <= limit {
        if o[0].headers != Some(Ok(())) {
            return mk("C10.section_within_limit_refused", format!("headers of size {head_size} <= limit refused: {:?}", o[0].headers));
        }
        let accept = size <= limit;
        match (accept, &o[0].trailers) {
            (true, Some(Ok(true))) => {}
            (false, Some(Err(SOut::HeaderTooBig(_, _)))) => {}
            (true, r) => return mk("C10.section_within_limit_refused", format!("trailer section of size {size} <= limit {limit} was not accepted: {:?}", r)).map_fact("boundary", &(size as i128 - limit as i128).to_string()),
            (false, r) => return mk("C10.section_over_limit_accepted", format!("trailer section of size {size} > limit {limit} was not refused as too big: {:?}", r)).map_fact("boundary", &(size as i128 - limit as i128).to_string()),
        }
    }
    // neighbour unaffected
    if other_size <= limit && o[1].send.is_none() && o[1].headers != Some(Ok(())) {
        return mk("C10.neighbour_affected", format!("the small message on the other stream (size {other_size}) was not delivered: {:?}", o[1]));
    }
    drop(n);
    done.open();
    ex.run(&mut NetWorld(net.clone()));
    obs::count(if size > limit { "probe.receive_over_limit" } else { "probe.receive_within_limit" });
    if size == limit || size == limit + 1 {
        obs::count("probe.receive_exact_boundary");
    }
    let mut out = RunOut::ok(true);
    if ctx.want_sample {
        out.sample = Some(json!({"direction": "receive", "role": role, "limit": limit, "section": what, "section_size": size, "peer_advertised_limit": peer_limit, "outcome": format!("{:?}", if in_trailers { format!("{:?}", o[0].trailers) } else { format!("{:?}", o[0].headers) })}));
    }
    out
}


fn panic_out(ex: &Exec, id: &str) -> Option<RunOut> {
    ex.panic.as_ref().map(|p| {
        if p.in_harness() {
            RunOut { harness_error: Some(format!("harness panic: {} at {}", p.msg, p.loc)), ..Default::default() }
        } else {
            RunOut::fail(Violation::new(&format!("{id}.panic"), format!("h3 panicked in task {}: {} at {}", p.task, p.msg, p.loc)).fact("at", p.loc.rsplit('/').next().unwrap_or("")))
        }
    })
}

trait MapFact {
    fn map_fact(self, k: &str, v: &str) -> Self;
}
impl MapFact for RunOut {
    fn map_fact(mut self, k: &str, v: &str) -> Self {
        if let Some(x) = self.violation.take() {
            self.violation = Some(x.fact(k, v));
        }
        self
    }
}

// -------------------------------------------------------------------------------- send side

fn run_send(ctx: &RunCtx) -> RunOut {
    let role_client = draw(2) == 0;
    let p_limit = *pick(&LIMITS[..10]); // what the peer advertises
    let settings_delay = *pick(&[0u32, 0, 3, 10, 40]); // peer's SETTINGS written after this many scheduler turns
    let target = sweep_target(p_limit);
    let t_target = sweep_target(p_limit);
    // regular fields chosen so that the whole section (pseudo-header fields included) has the target size
    let pseudo: Vec<Field> = if role_client { vec![f(":method", "POST"), f(":scheme", "https"), f(":authority", "example.com"), f(":path", "/c10")] } else { vec![f(":status", "200")] };
    let mut all = pseudo.clone();
    pad_exact(&mut all, target);
    let regular: Vec<Field> = all[pseudo.len()..].to_vec();
    let size = qpack::section_size(&all);
    let mut trailers: Vec<Field> = vec![];
    pad_exact(&mut trailers, t_target.max(33));
    let t_size = qpack::section_size(&trailers);

    let mut cfg = NetCfg::drawn();
    cfg.auto_grant = true;
    let net = Net::new(cfg);
    let peer = if role_client { SERVER } else { CLIENT };
    let h3side = 1 - peer;
    if role_client && chance(1, 2) {
        net.lock().unwrap().sides[CLIENT as usize].bi_credit = Some(0); // send_request has to wait for stream credit
    }
    let rec: Rc<RefCell<Obs>> = Default::default();
    let first_write: Rc<RefCell<Vec<(u64, u64)>>> = Default::default();
    // reads the applied peer limit at judgement time (exact quiescence, everything delivered)
    let final_probe: Rc<RefCell<Option<Box<dyn Fn() -> u64>>>> = Default::default();
    let done = Rc::new(Gate::default());
    let mut ex = Exec::new();
    ex.spurious = draw(3) == 1;
    {
        let net = net.clone();
        ex.spawn("peer", async move {
            for _ in 0..settings_delay {
                exec::yield_now().await;
            }
            let mut n = net.lock().unwrap();
            peer_control(&mut n, peer, &[(frames::SET_MAX_FIELD_SECTION, p_limit)]);
            drop(n);
            if !role_client {
                // the request the server responds to
                for _ in 0..draw(6) {
                    exec::yield_now().await;
                }
                let mut n = net.lock().unwrap();
                n.raw_open(0);
                n.raw_write(0, CLIENT, &headers_frame(&request_fields("GET", "/")));
                n.raw_fin(0, CLIENT);
            }
        });
    }
    let conn: SimConn = net::conn(&net, h3side);
    if role_client {
        let rec = rec.clone();
        let done = done.clone();
        let fw = first_write.clone();
        let fp = final_probe.clone();
        let regular = regular.clone();
        let trailers = trailers.clone();
        ex.spawn("client", async move {
            let mut b = h3::client::builder();
            b.send_grease(draw(2) == 1);
            let (mut driver, mut sr) = match b.build::<_, _, SimBuf>(conn).await {
                Ok(x) => x,
                Err(e) => {
                    rec.borrow_mut().build_err = Some(e.to_string());
                    return;
                }
            };
            let probe = sr.clone();
            let probe2 = sr.clone();
            *fp.borrow_mut() = Some(Box::new(move || probe2.settings().verif_max_field_section_size()));
            net::set_first_write_hook(Some(Box::new(move |id| {
                if id & 3 == 0 {
                    fw.borrow_mut().push((id, probe.settings().verif_max_field_section_size()));
                }
            })));
            let rec_d = rec.clone();
            let done2 = done.clone();
            exec::spawn("driver", async move {
                let r = poll_fn(|cx| {
                    if let std::task::Poll::Ready(e) = driver.poll_close(cx) {
                        return std::task::Poll::Ready(Some(e));
                    }
                    if done2.is_open() {
                        return std::task::Poll::Ready(None);
                    }
                    done2.register(cx);
                    std::task::Poll::Pending
                })
                .await;
                if let Some(e) = r {
                    rec_d.borrow_mut().driver = Some(cout(&e).to_string());
                }
                std::future::pending::<()>().await;
                drop(driver);
            });
            for _ in 0..draw(8) {
                exec::yield_now().await;
            }
            let mut req = http::Request::builder().method("POST").uri("https://example.com/c10").body(()).unwrap();
            *req.headers_mut() = hm(&regular);
            rec.borrow_mut().limit_before = sr.settings().verif_max_field_section_size();
            let r = sr.send_request(req).await;
            rec.borrow_mut().limit_after = sr.settings().verif_max_field_section_size();
            match r {
                Err(e) => rec.borrow_mut().send = Some(Err(sout(&e))),
                Ok(mut s) => {
                    rec.borrow_mut().send = Some(Ok(()));
                    rec.borrow_mut().t_limit_before = sr.settings().verif_max_field_section_size();
                    let r = s.send_trailers(hm(&trailers)).await;
                    rec.borrow_mut().t_limit_after = sr.settings().verif_max_field_section_size();
                    rec.borrow_mut().send_trailers = Some(r.map_err(|e| sout(&e)));
                    let _ = s.finish().await;
                }
            }
            done.wait().await;
            net::set_first_write_hook(None);
            drop(sr);
        });
    } else {
        let rec = rec.clone();
        let done = done.clone();
        let regular = regular.clone();
        let trailers = trailers.clone();
        let fw = first_write.clone();
        let fp = final_probe.clone();
        ex.spawn("server", async move {
            let mut b = h3::server::builder();
            b.send_grease(draw(2) == 1);
            let mut c = match b.build::<_, SimBuf>(conn).await {
                Ok(c) => c,
                Err(e) => {
                    rec.borrow_mut().build_err = Some(e.to_string());
                    return;
                }
            };
            let shared = c.inner.shared.clone();
            let shared2 = c.inner.shared.clone();
            *fp.borrow_mut() = Some(Box::new(move || shared2.settings().verif_max_field_section_size()));
            net::set_first_write_hook(Some(Box::new(move |id| {
                if id & 3 == 0 {
                    fw.borrow_mut().push((id, shared.settings().verif_max_field_section_size()));
                }
            })));
            loop {
                match super::e2e::accept_or_gate(&mut c, Some(&done)).await {
                    super::e2e::Accepted::Gate | super::e2e::Accepted::Done => break,
                    super::e2e::Accepted::Err(e) => {
                        rec.borrow_mut().driver = Some(cout(&e).to_string());
                        break;
                    }
                    super::e2e::Accepted::Request(resolver) => {
                        let rec = rec.clone();
                        let regular = regular.clone();
                        let trailers = trailers.clone();
                        exec::spawn("req", async move {
                            let Ok((_req, mut s)) = resolver.resolve_request().await else { return };
                            let mut resp = http::Response::builder().status(200).body(()).unwrap();
                            *resp.headers_mut() = hm(&regular);
                            rec.borrow_mut().limit_before = s.settings().verif_max_field_section_size();
                            let r = s.send_response(resp).await;
                            rec.borrow_mut().limit_after = s.settings().verif_max_field_section_size();
                            let ok = r.is_ok();
                            rec.borrow_mut().send = Some(r.map_err(|e| sout(&e)));
                            if ok {
                                rec.borrow_mut().t_limit_before = s.settings().verif_max_field_section_size();
                                let r = s.send_trailers(hm(&trailers)).await;
                                rec.borrow_mut().t_limit_after = s.settings().verif_max_field_section_size();
                                rec.borrow_mut().send_trailers = Some(r.map_err(|e| sout(&e)));
                                let _ = s.finish().await;
                            }
                        });
                    }
                }
            }
            net::set_first_write_hook(None);
        });
    }
    let stop = ex.run(&mut NetWorld(net.clone()));
    if let Some(r) = panic_out(&ex, "C10") {
        net::set_first_write_hook(None);
        return r;
    }
    if stop == Stop::StepCap {
        net::set_first_write_hook(None);
        return RunOut::fail(Violation::new("C10.step_cap", "no quiescence".to_string()));
    }
    let o = rec.borrow().clone();
    let role = if role_client { "client" } else { "server" };
    let res = (|| -> Result<(), Violation> {
        let n = net.lock().unwrap();
        let mk = |rule: &str, d: String| Violation::new(rule, format!("{d}; peer limit {p_limit} (SETTINGS written after {settings_delay} turns), section size {size}, trailer size {t_size}; observed {:?}; limit at first write {:?}", o, first_write.borrow())).fact("role", role).fact("dir", "send");
        if let Some(e) = &o.build_err {
            return Err(mk("C10.setup_failed", e.clone()));
        }
        let closes = n.closes_by(h3side);
        if !closes.is_empty() || o.driver.is_some() {
            return Err(mk("C10.connection_error", format!("connection closed {:?} / driver {:?}", closes, o.driver)));
        }
        // exact quiescence, no connection error, the peer's SETTINGS completely delivered: the advertised limit
        // must be the one in force now, whatever was sent before it arrived (it cannot be honoured otherwise)
        if let Some(probe) = final_probe.borrow().as_ref() {
            let applied = probe();
            if applied != p_limit {
                return Err(mk("C10.peer_limit_not_applied", format!("at quiescence the peer limit in force is {applied} although SETTINGS advertising {p_limit} were delivered")));
            }
        }
        let wire = headers_sizes_on_wire(&n, 0, h3side).map_err(|e| mk("C10.wire_undecodable", e))?;
        let fw_limit = first_write.borrow().iter().find(|(id, _)| *id == 0).map(|(_, l)| *l);
        match &o.send {
            None => {
                // never reached the send (e.g. request not yet delivered): nothing to judge
                return Ok(());
            }
            Some(Ok(())) => {
                let w = *wire.first().ok_or_else(|| mk("C10.sent_but_not_on_wire", "send succeeded but no HEADERS frame is on the wire".into()))?;
                if w != size {
                    return Err(mk("C10.sent_section_differs_from_submitted", format!("the HEADERS frame on the wire decodes to a section of size {w}, the section submitted has size {size}")));
                }
                let lim = fw_limit.unwrap_or(o.limit_after);
                if w > lim {
                    return Err(mk("C10.oversized_section_sent", format!("a section of size {w} was written although the peer's limit in force when the frame was handed to the transport was {lim}")).fact("section", "headers").fact("settings_arrived", if o.limit_before == o.limit_after { "before_call" } else { "during_call" }));
                }
            }
            Some(Err(SOut::HeaderTooBig(_, _))) => {
                if !wire.is_empty() {
                    return Err(mk("C10.refused_but_written", "send was refused as too big but a HEADERS frame is on the wire".into()));
                }
                if size <= o.limit_after {
                    return Err(mk("C10.section_within_limit_not_sent", format!("a section of size {size} was refused although the limit in force was {} (before the call {})", o.limit_after, o.limit_before)).fact("section", "headers"));
                }
            }
            Some(Err(e)) => return Err(mk("C10.unexpected_send_error", format!("{e}"))),
        }
        match &o.send_trailers {
            None => {}
            Some(Ok(())) => {
                let w = *wire.get(1).ok_or_else(|| mk("C10.sent_but_not_on_wire", "send_trailers succeeded but no second HEADERS frame is on the wire".into()))?;
                if w != t_size {
                    return Err(Violation::new("HARNESS", format!("model trailer size {t_size} != wire size {w}")));
                }
                // trailers are written within the call: the limit is the one seen around it
                if w > o.t_limit_before.max(o.t_limit_after) || (o.t_limit_before == o.t_limit_after && w > o.t_limit_after) {
                    return Err(mk("C10.oversized_section_sent", format!("a trailer section of size {w} was written although the peer's limit in force was {}", o.t_limit_after)).fact("section", "trailers"));
                }
            }
            Some(Err(SOut::HeaderTooBig(_, _))) => {
                if wire.len() > 1 {
                    return Err(mk("C10.refused_but_written", "send_trailers was refused as too big but a second HEADERS frame is on the wire".into()));
                }
                if t_size <= o.t_limit_after {
                    return Err(mk("C10.section_within_limit_not_sent", format!("a trailer section of size {t_size} was refused although the limit in force was {}", o.t_limit_after)).fact("section", "trailers"));
                }
            }
            Some(Err(e)) => return Err(mk("C10.unexpected_send_error", format!("send_trailers: {e}"))),
        }
        Ok(())
    })();
    obs::note(|| format!("send role={role} p_limit={p_limit} delay={settings_delay} size={size} t_size={t_size} observed {:?} first_write {:?}", o, first_write.borrow()));
    done.open();
    ex.run(&mut NetWorld(net.clone()));
    drop(ex);
    net::set_first_write_hook(None);
    match res {
        Err(v) if v.rule == "HARNESS" => return RunOut { harness_error: Some(v.detail), ..Default::default() },
        Err(v) => return RunOut::fail(v),
        Ok(()) => {}
    }
    if o.limit_before != o.limit_after {
        obs::count("probe.settings_applied_during_send_call");
    }
    if o.limit_before == DEFAULT && o.limit_after == DEFAULT && o.send.is_some() {
        obs::count("probe.sent_under_protocol_default");
    }
    if matches!(o.send, Some(Err(SOut::HeaderTooBig(..)))) {
        obs::count("probe.send_refused_too_big");
    }
    if obs::counter("net.open_pended") > 0 && role_client {
        obs::count("probe.send_request_waited_for_credit");
    }
    let mut out = RunOut::ok(o.send.is_some());
    if ctx.want_sample {
        out.sample = Some(json!({"direction": "send", "role": role, "peer_limit": p_limit, "settings_written_after_turns": settings_delay, "section_size": size, "trailer_size": t_size, "limit_before_call": o.limit_before, "limit_after_call": o.limit_after, "limit_at_first_write": format!("{:?}", first_write.borrow()), "send": format!("{:?}", o.send), "send_trailers": format!("{:?}", o.send_trailers)}));
    }
    out
}

impl Check for C10 {
    fn id(&self) -> &'static str {
        "C10"
    }
    fn meta(&self) -> Meta {
        Meta {
            level: "exploration",
            rule: "receive: configured limit L over {0,1,41,42,43,100,300,1000,16383,16384,2^30,2^62-1} x field sections (request, response, trailers; reference-encoded with drawn representations) whose RFC 9114 4.2.2 size sweeps L-2..L+2, L/2 and L+k (the padding one field line or two lines with the same name) x both roles x the stream used whole, split before anything is received on it, or split between body and trailers x the peer's own advertised limit over {default,1000,42,41,0} (decides the 431 answer; the client's limit known to the server when the application asks for the request is recorded, so a 431 sent although a limit below its size was already in force is certain) x a small neighbour message; send: peer-advertised limit P over the same grid x sections (request, response, trailers) sweeping P-2..P+2 x both roles x the peer's SETTINGS written after 0/3/10/40 scheduler turns (before, during or after the send call; send_request additionally made to wait for stream credit) ; chunkings, task order drawn; non-trivial = the send/receive under test happened; distinct = distinct schedule signatures",
            real: &["h3 client/server send paths (send_request, send_response, send_trailers) and receive paths (resolve_request incl. the automatic 431, recv_response, recv_trailers)", "h3 qpack stateless codec size accounting", "settings application via the connection driver"],
            stub: &["QUIC transport (SimQuic, with a first-write probe that samples the applied peer settings)", "executor (simexec)", "reference peer (script, reference codecs)", "applications"],
            assumptions: &["the limit in force for a send is the applied peer setting at the moment h3 hands the HEADERS frame to the transport (its send_data call, sampled by the simulator); SETTINGS that are applied while that write is blocked cannot be honoured any more; for a refusal it is the value after the call (settings only ever change from the default to the advertised value)", "limits above 200000 are only exercised on the accept side"],
            quick_runs: 700_000,
            thorough_runs: 28_000_000,
        }
    }
    fn run(&self, ctx: &RunCtx) -> RunOut {
        if draw(2) == 0 {
            run_receive(ctx)
        } else {
            run_send(ctx)
        }
    }
}

//! C18 — HTTP Datagrams carry their stream ID and payload unchanged.
use super::common::*;
use super::e2e::Gate;
use super::peer::*;
use crate::choice::{chance, draw, draw_bytes, draw_usize, pick};
use crate::exec::{self, Exec, Stop};
use crate::net::{self, Net, NetCfg, NetWorld, SimBuf, SimConn, CLIENT, SERVER};
use crate::obs;
use crate::refs::varint;
use crate::runner::{Check, Meta, RunCtx, RunOut, Violation};
use bytes::Buf;
use h3::quic::StreamId;
use h3_datagram::datagram_handler::HandleDatagramsExt;
use serde_json::json;
use std::cell::RefCell;
use std::future::poll_fn;
use std::rc::Rc;

pub struct C18;

const BOUNDARY_K: [u64; 10] = [0, 1, 63, 64, 16383, 16384, (1 << 30) - 1, 1 << 30, (1 << 60) - 1, 12345678901];

fn panic_out(ex: &Exec) -> Option<RunOut> {
    ex.panic.as_ref().map(|p| {
        if p.in_harness() {
            RunOut { harness_error: Some(format!("harness panic: {} at {}", p.msg, p.loc)), ..Default::default() }
        } else {
            RunOut::fail(Violation::new("C18.panic", format!("h3 panicked in task {}: {} at {}", p.task, p.msg, p.loc)).fact("at", p.loc.rsplit('/').next().unwrap_or("")))
        }
    })
}

#[derive(Default, Debug)]
struct Rec {
    received: Vec<(u64, Vec<u8>)>,
    read_err: Option<SOut>,
    send_errs: Vec<String>,
    driver: [Option<String>; 2],
    build_err: Option<String>,
}

/// reference decoding of an HTTP Datagram (RFC 9297 §2.1)
fn ref_decode(b: &[u8]) -> Option<(u64, Vec<u8>)> {
    let (q, n) = varint::decode(b)?;
    if q >= 1 << 60 {
        return None;
    }
    Some((q * 4, b[n..].to_vec()))
}

fn buf_walk(id: u64, p: &[u8]) -> Result<(), Violation> {
    let mut exp = varint::encode(id / 4);
    let hdr = exp.len();
    exp.extend_from_slice(p);
    let payload = if p.len() >= 2 && chance(1, 3) { SimBuf::multi(p, &[1 + draw_usize(p.len() - 1)]) } else { SimBuf::one(p.to_vec()) };
    let mut enc = h3_datagram::datagram::Datagram::new(StreamId::try_from(id).unwrap(), payload).encode();
    let mut off = 0usize;
    let mut steps = 0;
    let mk = |rule: &str, d: String| Violation::new(rule, d);
    loop {
        if enc.remaining() != exp.len() - off {
            return Err(mk("C18.buf_remaining_wrong", format!("stream {id} payload {} bytes: after consuming {off} of {} bytes remaining() = {}", p.len(), exp.len(), enc.remaining())).fact("header_len", hdr));
        }
        if off == exp.len() {
            if enc.has_remaining() || !enc.chunk().is_empty() {
                return Err(mk("C18.buf_not_empty_at_end", format!("stream {id}: chunk() has {} bytes after everything was consumed", enc.chunk().len())));
            }
            return Ok(());
        }
        let c = enc.chunk();
        if c.is_empty() || c.len() > exp.len() - off {
            return Err(mk("C18.buf_chunk_len_wrong", format!("stream {id}: chunk() has {} bytes at offset {off} of {}", c.len(), exp.len())));
        }
        if c != &exp[off..off + c.len()] {
            return Err(mk("C18.buf_chunk_wrong", format!("stream {id} payload {} bytes: chunk() at offset {off} is [{}], expected [{}]", p.len(), c.iter().take(12).map(|x| format!("{x:02x}")).collect::<Vec<_>>().join(" "), exp[off..].iter().take(12).map(|x| format!("{x:02x}")).collect::<Vec<_>>().join(" "))).fact("header_len", hdr).fact("in_header", off < hdr));
        }
        // advance: within the chunk (most steps), or beyond it, up to everything that remains
        let left = exp.len() - off;
        let j = match draw(4) {
            0 => c.len(),
            1 => 1 + draw_usize(c.len() - 1),
            2 => 1 + draw_usize(left - 1),
            _ => (1 + draw_usize(hdr + 2)).min(left),
        };
        if off < hdr && off + j > hdr {
            obs::count("c18.advance_spans_header_and_payload");
        }
        enc.advance(j);
        off += j;
        steps += 1;
        if steps > 4000 {
            return Err(mk("C18.buf_walk_no_progress", format!("stream {id}")));
        }
    }
}

fn run_fidelity(ctx: &RunCtx) -> RunOut {
    let to_server = draw(2) == 0; // direction under test
    let m = 1 + draw_usize(4);
    let mut plan: Vec<(u64, Vec<u8>)> = vec![];
    for j in 0..m {
        let k = if j == 0 && ctx.run < (1 << 17) {
            ctx.run / 2 // systematic sweep of k over 0..2^16 in the first runs
        } else if chance(1, 3) {
            *pick(&BOUNDARY_K)
        } else {
            ((draw(u32::MAX) as u64) << 28 | draw(1 << 28) as u64) & ((1 << 60) - 1)
        };
        let len = *pick(&[0usize, 1, 2, 7, 100, 1180, 1191]).min(&(1 + draw_usize(1190)));
        plan.push((4 * k, draw_bytes(len)));
    }
    // The encoded buffer consumed directly under the general `bytes::Buf` contract: read a drawn part
    // of the current chunk, then advance by a drawn amount that may be larger than what was read and
    // may span the quarter stream ID and the payload in one call (a backend acknowledging a burst).
    for (id, p) in &plan {
        if let Err(v) = buf_walk(*id, p) {
            return RunOut::fail(v);
        }
    }
    let mut cfg = NetCfg::drawn();
    cfg.max_datagram = 1200;
    let net = Net::new(cfg);
    net.lock().unwrap().dgram_faults = draw(3) != 0;
    let rec: Rc<RefCell<Rec>> = Default::default();
    let done = Rc::new(Gate::default());
    let mut ex = Exec::new();
    ex.spurious = draw(3) == 1;
    // server
    {
        let conn: SimConn = net::conn(&net, SERVER);
        let rec = rec.clone();
        let done = done.clone();
        let plan = plan.clone();
        ex.spawn("server", async move {
            let mut b = h3::server::builder();
            b.enable_datagram(true).send_grease(draw(2) == 1);
            let mut c = match b.build::<_, SimBuf>(conn).await {
                Ok(c) => c,
                Err(e) => {
                    rec.borrow_mut().build_err = Some(e.to_string());
                    return;
                }
            };
            if to_server {
                let mut reader = c.get_datagram_reader();
                let rec2 = rec.clone();
                exec::spawn("reader", async move {
                    loop {
                        match reader.read_datagram().await {
                            Ok(d) => {
                                let id = d.stream_id().into_inner();
                                let p = read_all(d.into_payload());
                                rec2.borrow_mut().received.push((id, p));
                            }
                            Err(e) => {
                                rec2.borrow_mut().read_err = Some(sout(&e));
                                return;
                            }
                        }
                    }
                });
            } else {
                for (id, p) in &plan {
                    let mut s = c.get_datagram_sender(StreamId::try_from(*id).unwrap());
                    let buf = if p.len() >= 2 && chance(1, 3) { SimBuf::multi(p, &[1 + draw_usize(p.len() - 1)]) } else { SimBuf::one(p.clone()) };
                    if let Err(e) = s.send_datagram(buf) {
                        rec.borrow_mut().send_errs.push(e.to_string());
                    }
                    if chance(1, 2) {
                        exec::yield_now().await;
                    }
                }
            }
            match super::e2e::accept_or_gate(&mut c, Some(&done)).await {
                super::e2e::Accepted::Err(e) => rec.borrow_mut().driver[1] = Some(cout(&e).to_string()),
                _ => {}
            }
        });
    }
    // client
    {
        let conn: SimConn = net::conn(&net, CLIENT);
        let rec = rec.clone();
        let done = done.clone();
        let plan = plan.clone();
        ex.spawn("client", async move {
            let mut b = h3::client::builder();
            b.enable_datagram(true).send_grease(draw(2) == 1);
            let (mut driver, sr) = match b.build::<_, _, SimBuf>(conn).await {
                Ok(x) => x,
                Err(e) => {
                    rec.borrow_mut().build_err = Some(e.to_string());
                    return;
                }
            };
            if to_server {
                for (id, p) in &plan {
                    let mut s = driver.get_datagram_sender(StreamId::try_from(*id).unwrap());
                    let buf = if p.len() >= 2 && chance(1, 3) { SimBuf::multi(p, &[1 + draw_usize(p.len() - 1)]) } else { SimBuf::one(p.clone()) };
                    if let Err(e) = s.send_datagram(buf) {
                        rec.borrow_mut().send_errs.push(e.to_string());
                    }
                    if chance(1, 2) {
                        exec::yield_now().await;
                    }
                }
            } else {
                let mut reader = driver.get_datagram_reader();
                let rec2 = rec.clone();
                exec::spawn("reader", async move {
                    loop {
                        match reader.read_datagram().await {
                            Ok(d) => {
                                let id = d.stream_id().into_inner();
                                let p = read_all(d.into_payload());
                                rec2.borrow_mut().received.push((id, p));
                            }
                            Err(e) => {
                                rec2.borrow_mut().read_err = Some(sout(&e));
                                return;
                            }
                        }
                    }
                });
            }
            let r = poll_fn(|cx| {
                if let std::task::Poll::Ready(e) = driver.poll_close(cx) {
                    return std::task::Poll::Ready(Some(e));
                }
                if done.is_open() {
                    return std::task::Poll::Ready(None);
                }
                done.register(cx);
                std::task::Poll::Pending
            })
            .await;
            if let Some(e) = r {
                rec.borrow_mut().driver[0] = Some(cout(&e).to_string());
            }
            drop(sr);
        });
    }
    let stop = ex.run(&mut NetWorld(net.clone()));
    if let Some(r) = panic_out(&ex) {
        return r;
    }
    if stop == Stop::StepCap {
        return RunOut::fail(Violation::new("C18.step_cap", "no quiescence".to_string()));
    }
    let sender = if to_server { CLIENT } else { SERVER };
    let res = (|| -> Result<(), Violation> {
        let r = rec.borrow();
        let n = net.lock().unwrap();
        let mk = |rule: &str, d: String| Violation::new(rule, d).fact("direction", if to_server { "client_to_server" } else { "server_to_client" });
        if let Some(e) = &r.build_err {
            return Err(mk("C18.setup_failed", e.clone()));
        }
        if !r.send_errs.is_empty() {
            return Err(mk("C18.send_failed", format!("{:?}", r.send_errs)));
        }
        // on the wire: varint(S/4) || P, exactly
        let wire = &n.dgram_sent[sender as usize];
        if wire.len() != plan.len() {
            return Err(mk("C18.wire_count", format!("{} datagrams handed to the transport, {} sent by the application", wire.len(), plan.len())));
        }
        for (w, (id, p)) in wire.iter().zip(plan.iter()) {
            let mut exp = varint::encode(id / 4);
            exp.extend_from_slice(p);
            if *w != exp {
                let head_ok = w.len() == exp.len() && w[varint::size(id / 4)..] == exp[varint::size(id / 4)..];
                return Err(mk("C18.wire_encoding_wrong", format!("stream {id} payload {} bytes: wire starts [{}], expected [{}]", p.len(), w.iter().take(12).map(|x| format!("{x:02x}")).collect::<Vec<_>>().join(" "), exp.iter().take(12).map(|x| format!("{x:02x}")).collect::<Vec<_>>().join(" "))).fact("part", if head_ok { "quarter_stream_id" } else { "other" }));
            }
        }
        if let Some(e) = &r.read_err {
            return Err(mk("C18.read_failed", format!("reading a well-formed datagram failed with {e}")));
        }
        // what arrived decodes to what was sent; nothing invented, duplicates only where injected
        let dups = obs::counter("net.dgram_duplicated");
        let drops = obs::counter("net.dgram_dropped");
        for (id, p) in &r.received {
            let sent = plan.iter().filter(|(i, q)| i == id && q == p).count();
            if sent == 0 {
                return Err(mk("C18.received_not_sent", format!("received (stream {id}, {} bytes) which was never sent; sent {:?}", p.len(), plan.iter().map(|(i, p)| (*i, p.len())).collect::<Vec<_>>())));
            }
            let got = r.received.iter().filter(|(i, q)| i == id && q == p).count();
            if got as u64 > sent as u64 + dups {
                return Err(mk("C18.duplicated", format!("stream {id}: received {got} copies, sent {sent}, duplicates injected {dups}")));
            }
        }
        if (r.received.len() as u64) + drops < plan.len() as u64 {
            return Err(mk("C18.lost_without_drop", format!("received {} of {} datagrams although only {drops} were dropped by the network", r.received.len(), plan.len())));
        }
        if r.driver.iter().any(|d| d.is_some()) || !n.closes.is_empty() {
            return Err(mk("C18.connection_error", format!("drivers {:?}, closes {:?}", r.driver, n.closes)));
        }
        Ok(())
    })();
    done.open();
    ex.run(&mut NetWorld(net.clone()));
    drop(ex);
    if let Err(v) = res {
        return RunOut::fail(v);
    }
    let mut out = RunOut::ok(true);
    if ctx.want_sample {
        out.sample = Some(json!({"mode": "fidelity", "direction": if to_server {"client->server"} else {"server->client"}, "datagrams": plan.iter().map(|(i, p)| json!({"stream_id": i, "payload_len": p.len()})).collect::<Vec<_>>(), "received": rec.borrow().received.len()}));
    }
    out
}

fn run_malformed(ctx: &RunCtx) -> RunOut {
    // byte strings: systematic for length 0..1 (and a slice of length 2), drawn up to 9 bytes
    let idx = ctx.run / 3;
    let bytes: Vec<u8> = if idx == 0 {
        vec![]
    } else if idx <= 256 {
        vec![(idx - 1) as u8]
    } else if idx <= 256 + 4096 {
        let v = idx - 257;
        vec![((v >> 6) << 2) as u8 | (draw(4) as u8), (v & 0x3f) as u8 | ((draw(4) as u8) << 6)]
    } else {
        let mut b = match draw(4) {
            0 => varint_any_form(*pick(&[0u64, 1, 63, 64, (1 << 60) - 1, 1 << 60, (1 << 62) - 1, 1 << 61])),
            1 => {
                let mut v = varint_any_form(some_varint_value());
                v.truncate(draw_usize(v.len()));
                v
            }
            _ => draw_bytes(draw_usize(10)),
        };
        if chance(1, 2) {
            b.extend(draw_bytes(draw_usize(6)));
        }
        b.truncate(9);
        b
    };
    let to_server = draw(2) == 0;
    let net = Net::new(NetCfg::drawn());
    let rec: Rc<RefCell<Rec>> = Default::default();
    let done = Rc::new(Gate::default());
    let mut ex = Exec::new();
    ex.spurious = draw(3) == 1;
    let h3side = if to_server { SERVER } else { CLIENT };
    let peer = 1 - h3side;
    {
        let mut n = net.lock().unwrap();
        peer_control(&mut n, peer, &[(crate::refs::frames::SET_H3_DATAGRAM, 1)]);
        n.raw_datagram(peer, &bytes);
    }
    let conn: SimConn = net::conn(&net, h3side);
    {
        let rec = rec.clone();
        let done = done.clone();
        if to_server {
            ex.spawn("server", async move {
                let mut b = h3::server::builder();
                b.enable_datagram(true);
                let mut c = match b.build::<_, SimBuf>(conn).await {
                    Ok(c) => c,
                    Err(e) => {
                        rec.borrow_mut().build_err = Some(e.to_string());
                        return;
                    }
                };
                let mut reader = c.get_datagram_reader();
                let rec2 = rec.clone();
                exec::spawn("reader", async move {
                    match reader.read_datagram().await {
                        Ok(d) => {
                            let id = d.stream_id().into_inner();
                            let mut p = d.into_payload();
                            let v = p.copy_to_bytes(p.remaining()).to_vec();
                            rec2.borrow_mut().received.push((id, v));
                        }
                        Err(e) => rec2.borrow_mut().read_err = Some(sout(&e)),
                    }
                });
                match super::e2e::accept_or_gate(&mut c, Some(&done)).await {
                    super::e2e::Accepted::Err(e) => rec.borrow_mut().driver[1] = Some(cout(&e).to_string()),
                    _ => {}
                }
            });
        } else {
            ex.spawn("client", async move {
                let mut b = h3::client::builder();
                b.enable_datagram(true);
                let (mut driver, sr) = match b.build::<_, _, SimBuf>(conn).await {
                    Ok(x) => x,
                    Err(e) => {
                        rec.borrow_mut().build_err = Some(e.to_string());
                        return;
                    }
                };
                let mut reader = driver.get_datagram_reader();
                let rec2 = rec.clone();
                exec::spawn("reader", async move {
                    match reader.read_datagram().await {
                        Ok(d) => {
                            let id = d.stream_id().into_inner();
                            let mut p = d.into_payload();
                            let v = p.copy_to_bytes(p.remaining()).to_vec();
                            rec2.borrow_mut().received.push((id, v));
                        }
                        Err(e) => rec2.borrow_mut().read_err = Some(sout(&e)),
                    }
                });
                let r = poll_fn(|cx| {
                    if let std::task::Poll::Ready(e) = driver.poll_close(cx) {
                        return std::task::Poll::Ready(Some(e));
                    }
                    if done.is_open() {
                        return std::task::Poll::Ready(None);
                    }
                    done.register(cx);
                    std::task::Poll::Pending
                })
                .await;
                if let Some(e) = r {
                    rec.borrow_mut().driver[0] = Some(cout(&e).to_string());
                }
                drop(sr);
            });
        }
    }
    let stop = ex.run(&mut NetWorld(net.clone()));
    if let Some(r) = panic_out(&ex) {
        return r;
    }
    if stop == Stop::StepCap {
        return RunOut::fail(Violation::new("C18.step_cap", "no quiescence".to_string()));
    }
    let reference = ref_decode(&bytes);
    let res = (|| -> Result<(), Violation> {
        let r = rec.borrow();
        let n = net.lock().unwrap();
        let hex = bytes.iter().map(|x| format!("{x:02x}")).collect::<Vec<_>>().join(" ");
        let mk = |rule: &str, d: String| Violation::new(rule, format!("datagram [{hex}]: {d}; observed {:?}", r)).fact("role", if to_server { "server" } else { "client" });
        if let Some(e) = &r.build_err {
            return Err(mk("C18.setup_failed", e.clone()));
        }
        match &reference {
            Some((id, p)) => {
                if r.received != vec![(*id, p.clone())] {
                    return Err(mk("C18.decode_wrong", format!("expected stream {id} payload {} bytes", p.len())));
                }
                if r.driver.iter().any(|d| d.is_some()) || !n.closes_by(h3side).is_empty() {
                    return Err(mk("C18.connection_error", "a well-formed datagram caused a connection error".into()));
                }
            }
            None => {
                if r.read_err != Some(SOut::Conn(COut::Local(0x33))) {
                    return Err(mk("C18.malformed_not_rejected", "expected the read to fail with H3_DATAGRAM_ERROR".into()));
                }
                let d = &r.driver[if to_server { 1 } else { 0 }];
                if d.as_deref() != Some("Local(H3_DATAGRAM_ERROR)") || n.effective_close() != Some((h3side, 0x33)) {
                    return Err(mk("C18.datagram_error_not_connection_outcome", format!("driver {:?}, effective close {:?}", d, n.effective_close())));
                }
            }
        }
        Ok(())
    })();
    done.open();
    ex.run(&mut NetWorld(net.clone()));
    drop(ex);
    if let Err(v) = res {
        return RunOut::fail(v);
    }
    obs::count(if reference.is_some() { "probe.raw_datagram_wellformed" } else { "probe.raw_datagram_malformed" });
    let mut out = RunOut::ok(true);
    if ctx.want_sample {
        out.sample = Some(json!({"mode": "raw_datagram", "bytes": bytes, "reference": format!("{:?}", reference.map(|(i, p)| (i, p.len())))}));
    }
    out
}

impl Check for C18 {
    fn id(&self) -> &'static str {
        "C18"
    }
    fn meta(&self) -> Meta {
        Meta {
            level: "exploration",
            rule: "fidelity: 1-4 datagrams per run for stream ids 4k (k swept systematically over 0..2^16 by the run index in the first 131072 runs, varint form boundaries 63/64, 16383/16384, 2^30-1/2^30, 2^60-1, and drawn 60-bit k) x payloads of 0..1191 arbitrary bytes (single and multi-chunk Bufs) sent through DatagramSender in either direction x drawn consumption of the EncodedDatagram Buf by the transport (chunk/advance whole, copy_to_bytes, byte-wise, drawn sizes) and, on a directly encoded copy, a walk under the general bytes::Buf contract (advance by less than, exactly, or more than the current chunk, incl. one advance spanning quarter stream ID and payload) with remaining()/chunk() compared to the reference bytes at every step x unreliable delivery (drop, duplicate, reorder) to the peer's DatagramReader, whose transport buffer is one chunk or two segments cut at a drawn point (possibly inside the quarter stream id); raw datagrams: all byte strings of length 0-1, a systematic slice of length 2, drawn strings up to 9 bytes incl. truncated varints and quarter ids >= 2^60; every run counts as non-trivial; distinct = distinct schedule signatures",
            real: &["h3_datagram::datagram::{Datagram, EncodedDatagram}", "h3_datagram DatagramSender / DatagramReader / HandleDatagramsExt for client and server", "h3 connection drivers and error propagation"],
            stub: &["QUIC transport incl. the datagram extension traits (SimQuic)", "executor (simexec)", "raw peer for malformed datagrams"],
            assumptions: &["the Quinn datagram adapter (h3-quinn/src/datagram.rs) is exercised by C17's engine, not here"],
            quick_runs: 1_500_000,
            thorough_runs: 60_000_000,
        }
    }
    fn run(&self, ctx: &RunCtx) -> RunOut {
        if ctx.run % 3 == 2 {
            run_malformed(ctx)
        } else {
            run_fidelity(ctx)
        }
    }
}

//! Reference validator for everything an h3 endpoint wrote (RFC 9114 §6.2, §7): complete per-stream
//! byte logs of the simulated transport are parsed with the reference codecs only.
use crate::net::{initiator, is_uni, Net};
use crate::refs::frames::{self, Tail};
use crate::refs::varint;

#[derive(Debug, Default, Clone)]
pub struct SideWire {
    pub control_streams: Vec<u64>,
    pub settings: Vec<Vec<(u64, u64)>>,
    pub goaways: Vec<u64>,
    pub uni_types: Vec<(u64, u64)>,
    /// per request stream: DATA payloads concatenated, number of HEADERS frames, finished?, complete?
    pub requests: Vec<ReqWire>,
}
#[derive(Debug, Default, Clone)]
pub struct ReqWire {
    pub id: u64,
    pub body: Vec<u8>,
    pub headers: Vec<Vec<u8>>,
    pub finished: bool,
    pub reset: bool,
    pub clean_tail: bool,
    pub data_frames: usize,
    pub empty_data_frames: usize,
    pub reserved_frames: usize,
}

pub type WireErr = (String, String); // (rule suffix, detail)

fn hex(b: &[u8]) -> String {
    b.iter().take(48).map(|x| format!("{x:02x}")).collect::<Vec<_>>().join(" ")
}

/// Validate one direction written by `side`. `wt`: WebTransport stream headers are legal.
pub fn check_side(n: &Net, side: u8, wt: bool) -> Result<SideWire, WireErr> {
    let mut out = SideWire::default();
    for id in n.streams_of(side) {
        let d = n.dir_ref(id, side).unwrap();
        let bytes = &d.sent;
        if is_uni(id) {
            if initiator(id) != side {
                continue;
            }
            if bytes.is_empty() {
                // opened, nothing written yet - unless the sender has already let go of it: a stream that was
                // opened (it took an id and the peer's credit) and abandoned without a byte does not begin with a
                // stream type. Judged only while the connection is up (an error may interrupt setup anywhere).
                if (d.send_dropped || d.finish_calls > 0 || !d.reset_calls.is_empty()) && n.closes.is_empty() && n.sides.iter().all(|s| s.fault.is_none() && s.pending_close.is_none()) {
                    return Err(("uni_stream_without_type".into(), format!("uni stream {id} was opened and then {} without a single byte: it never got a stream type", if d.finish_calls > 0 { "finished" } else if !d.reset_calls.is_empty() { "reset" } else { "dropped" })));
                }
                continue;
            }
            let Some((ty, tn)) = varint::decode(bytes) else {
                if d.finish_calls > 0 {
                    return Err(("uni_type_truncated".into(), format!("uni stream {id} finished inside its stream type: [{}]", hex(bytes))));
                }
                continue;
            };
            out.uni_types.push((id, ty));
            match ty {
                frames::ST_CONTROL => {
                    out.control_streams.push(id);
                    if d.finish_calls > 0 || !d.reset_calls.is_empty() {
                        return Err(("control_stream_closed".into(), format!("control stream {id} was finished/reset by its sender")));
                    }
                    let (fr, tail) = frames::segment(&bytes[tn..]);
                    for (i, f) in fr.iter().enumerate() {
                        if i == 0 && f.ty != frames::SETTINGS {
                            return Err(("control_first_not_settings".into(), format!("control stream {id}: first frame has type {:#x}", f.ty)));
                        }
                        match f.ty {
                            frames::SETTINGS => {
                                if i != 0 {
                                    return Err(("second_settings".into(), format!("control stream {id}: SETTINGS frame at position {i}")));
                                }
                                let s = frames::parse_settings(&f.payload).map_err(|e| ("settings_invalid".to_string(), format!("control stream {id}: SETTINGS payload invalid: {e:?}: [{}]", hex(&f.payload))))?;
                                for (k, (sid, _)) in s.iter().enumerate() {
                                    if s[..k].iter().any(|(o, _)| o == sid) {
                                        return Err(("settings_duplicate".into(), format!("setting {sid:#x} listed twice")));
                                    }
                                    if !frames::is_known_setting(*sid) && !frames::is_reserved(*sid) {
                                        return Err(("settings_unknown_id".into(), format!("setting id {sid:#x} is neither defined nor of the reserved form")));
                                    }
                                }
                                out.settings.push(s);
                            }
                            frames::GOAWAY | frames::MAX_PUSH_ID | frames::CANCEL_PUSH => {
                                if frames::layout(f.ty, &f.payload) != frames::Layout::Ok {
                                    return Err(("control_frame_malformed".into(), format!("control stream {id}: frame {:#x} payload [{}] does not match its fields", f.ty, hex(&f.payload))));
                                }
                                if f.ty == frames::GOAWAY {
                                    out.goaways.push(varint::decode(&f.payload).unwrap().0);
                                }
                            }
                            t if frames::is_reserved(t) => {}
                            t => return Err(("control_frame_not_allowed".into(), format!("control stream {id}: frame type {t:#x} is not allowed on a control stream"))),
                        }
                    }
                    if let Tail::Cut { .. } = tail {
                        // an unfinished write is only acceptable while the stream is open (it always is)
                    }
                }
                frames::ST_QPACK_ENC | frames::ST_QPACK_DEC => {}
                frames::ST_WT_UNI if wt => {}
                frames::ST_PUSH => return Err(("push_stream".into(), format!("uni stream {id}: push stream opened (not implemented / not allowed here)"))),
                t if frames::is_reserved(t) => {}
                t => return Err(("uni_type_illegal".into(), format!("uni stream {id} begins with type {t:#x}, which is neither defined nor reserved"))),
            }
        } else {
            // request stream (either initiator): frames written by `side`
            if wt {
                if let Some((0x41, _)) = varint::decode(bytes) {
                    continue; // WebTransport bidi stream: unframed after its header
                }
            }
            let (fr, tail) = frames::segment(bytes);
            let mut r = ReqWire { id, finished: d.finish_calls > 0, reset: !d.reset_calls.is_empty(), clean_tail: tail == Tail::Clean, ..Default::default() };
            let mut stage = 0; // 0 before HEADERS, 1 body, 2 after trailers
            for f in &fr {
                match f.ty {
                    frames::HEADERS => {
                        if stage >= 2 {
                            return Err(("request_frame_order".into(), format!("stream {id}: a third HEADERS frame")));
                        }
                        stage += 1;
                        r.headers.push(f.payload.clone());
                    }
                    frames::DATA => {
                        if stage != 1 {
                            return Err(("request_frame_order".into(), format!("stream {id}: DATA frame {}", if stage == 0 { "before HEADERS" } else { "after trailers" })));
                        }
                        r.data_frames += 1;
                        if f.payload.is_empty() {
                            r.empty_data_frames += 1;
                        }
                        r.body.extend_from_slice(&f.payload);
                    }
                    t if frames::is_reserved(t) => r.reserved_frames += 1,
                    t if frames::is_h2_type(t) => return Err(("h2_frame_type_sent".into(), format!("stream {id}: HTTP/2-reserved frame type {t:#x} sent"))),
                    t => return Err(("request_frame_type".into(), format!("stream {id}: frame type {t:#x} on a request stream"))),
                }
            }
            if let Tail::Cut { at, ty, in_payload, have, want } = &tail {
                if d.finish_calls > 0 {
                    return Err(("frame_incomplete_on_finished_stream".into(), format!("stream {id} was finished with an incomplete frame at offset {at} (type {ty:?}, in payload {in_payload}, have {have} of {want:?})")));
                }
                // partial DATA on an unfinished stream: account the bytes that are there
                if *ty == Some(frames::DATA) && *in_payload {
                    r.body.extend_from_slice(&bytes[bytes.len() - have..]);
                } else if let Some(t) = ty {
                    if !(matches!(*t, frames::HEADERS | frames::DATA) || frames::is_reserved(*t)) {
                        return Err(("request_frame_type".into(), format!("stream {id}: frame type {t:#x} on a request stream (incomplete)")));
                    }
                }
            }
            out.requests.push(r);
        }
    }
    if out.control_streams.len() > 1 {
        return Err(("two_control_streams".into(), format!("control streams {:?}", out.control_streams)));
    }
    // a server's GOAWAY names a client-initiated bidirectional stream (RFC 9114 7.2.6); a client's a push id
    if side == crate::net::SERVER {
        if let Some(g) = out.goaways.iter().find(|g| **g % 4 != 0) {
            return Err(("goaway_id_not_request_stream".into(), format!("the server's GOAWAY identifiers {:?}: {g} is not a client-initiated bidirectional stream id", out.goaways)));
        }
    }
    // GOAWAY ids never increase
    if out.goaways.windows(2).any(|w| w[1] > w[0]) {
        return Err(("goaway_increased".into(), format!("GOAWAY identifiers {:?}", out.goaways)));
    }
    Ok(out)
}

//! C07 — faults confined to one request never harm the connection or other requests.
//! Real h3 endpoint (server role / client role) with 2-4 concurrent requests against a reference
//! peer (scripted, reference codecs); a drawn subset suffers exactly one stream-scoped fault.
use super::common::*;
use super::e2e::Gate;
use super::peer::*;
use crate::choice::{chance, draw, draw_usize, pick};
use crate::exec::{self, Exec, Stop};
use crate::net::{self, Net, NetCfg, NetWorld, Shared, SimBuf, SimConn, CLIENT, SERVER};
use crate::obs;
use crate::refs::frames;
use crate::refs::qpack::{self, Field};
use crate::runner::{Check, Meta, RunCtx, RunOut, Violation};
use serde_json::json;
use std::cell::RefCell;
use std::future::poll_fn;
use std::rc::Rc;

pub struct C07;

#[derive(Clone, Debug, PartialEq)]
pub enum Fault {
    None,
    /// peer resets its sending side after `off` bytes of the message
    Reset(u64, usize),
    /// peer asks h3 to stop sending (delivered once the peer script reaches it)
    Stop(u64),
    /// validly encoded but malformed message (which defect)
    Malformed(u8),
    /// field section one over the receiver's limit
    Oversized,
    /// (server role) stream finished before any HEADERS
    FinFirst,
}
const LIMIT: u64 = 400;

#[derive(Clone, Debug)]
pub struct ReqPlan {
    pub fault: Fault,
    pub headers: Vec<Field>,
    pub body: Vec<u8>,
    pub trailers: Option<Vec<Field>>,
    pub bytes: Vec<u8>,
    /// what the application does with the handle after an error
    pub after: u8,
}

#[derive(Default, Debug, Clone)]
pub struct ReqObs {
    pub headers_ok: Option<Result<(), SOut>>,
    pub got_headers: Vec<Field>,
    pub body: Vec<u8>,
    pub data_end: Option<Result<(), SOut>>,
    pub trailers: Option<Result<Option<Vec<Field>>, SOut>>,
    pub send: Option<Result<(), SOut>>,
    pub xid: Option<usize>,
}
#[derive(Default, Debug)]
pub struct Rec {
    pub reqs: Vec<ReqObs>,
    pub by_stream: std::collections::BTreeMap<u64, usize>,
    pub driver: Option<Result<(), COut>>,
    pub build_err: Option<String>,
}

fn malformed(fields: &mut Vec<Field>, which: u8, request: bool) {
    match which {
        0 => fields.push(f("Upper-Case", "x")),
        1 => fields.push(f("x-bad", "a\nb")),
        2 => fields.push(f(":unknown-pseudo", "1")),
        3 => {
            // missing :method / :status
            fields.remove(0);
        }
        5 => fields.push(f("", "value")), // a field line with a zero-length name: valid QPACK, malformed message
        6 => fields.push(f("x-sp ace", "1")),
        _ => {
            if request {
                fields.push(f("host", "contradicting.example"))
            } else {
                fields.push(f("x-nul", "a\0b"))
            }
        }
    }
}

fn pad_to_size(fields: &mut Vec<Field>, target: u64) {
    let cur = qpack::section_size(fields);
    if target > cur + 32 + 5 {
        let n = (target - cur - 32 - 5) as usize;
        fields.push((b"x-pad".to_vec(), vec![b'p'; n]));
    }
}

fn plan(i: usize, request: bool, fault: Fault) -> ReqPlan {
    let mut headers = if request { request_fields(*pick(&["POST", "PUT"]), "/c07") } else { response_fields(200) };
    headers.push((b"x-id".to_vec(), i.to_string().into_bytes()));
    if chance(1, 2) {
        headers.push(f("x-a", "1"));
        headers.push(f("x-a", "2"));
    }
    let n = *pick(&[0usize, 1, 10, 300, 5000, 20000]);
    let seed = draw(200) as usize;
    let body: Vec<u8> = (0..n).map(|k| ((k * 13 + seed + i) % 251) as u8).collect();
    let trailers = if chance(1, 3) { Some(vec![f("x-trailer", &format!("t{i}"))]) } else { None };
    match &fault {
        Fault::Malformed(w) => malformed(&mut headers, *w, request),
        Fault::Oversized => pad_to_size(&mut headers, LIMIT + 1),
        _ => {}
    }
    let mut bytes = vec![];
    if fault != Fault::FinFirst {
        let style = if matches!(fault, Fault::Malformed(_)) { qpack::Style::Plain } else { qpack::Style::Drawn };
        bytes.extend(frames::frame(frames::HEADERS, &qpack::encode(&headers, style, |n| draw(n))));
        // body in 1-3 DATA frames
        let k = 1 + draw_usize(3);
        let mut off = 0;
        for j in 0..k {
            let end = if j + 1 == k { body.len() } else { off + draw_usize(body.len() - off + 1) };
            bytes.extend(frames::frame(frames::DATA, &body[off..end]));
            off = end;
        }
        if let Some(t) = &trailers {
            bytes.extend(frames::frame(frames::HEADERS, &qpack::encode_plain(t)));
        }
    }
    ReqPlan { fault, headers, body, trailers, bytes, after: draw(3) as u8 }
}

fn gen_fault(request: bool) -> Fault {
    match draw(if request { 6 } else { 5 }) {
        0 => Fault::Reset(*pick(&[0x10cu64, 0x0, 0x100, 0x10b, 77]), 0),
        1 => Fault::Stop(*pick(&[0x10cu64, 0x0, 0x100, 99])),
        2 => Fault::Malformed(draw(7) as u8),
        3 => Fault::Oversized,
        4 => Fault::Reset(*pick(&[0x10cu64, 0x1]), 1),
        _ => Fault::FinFirst,
    }
}

// ------------------------------------------------------------------ server under test

fn spawn_server(ex: &mut Exec, net: &Shared, rec: &Rc<RefCell<Rec>>, plans: Rc<Vec<ReqPlan>>, done: Rc<Gate>) {
    let conn: SimConn = net::conn(net, SERVER);
    let rec = rec.clone();
    ex.spawn("server", async move {
        let mut b = h3::server::builder();
        b.send_grease(draw(2) == 1);
        b.max_field_section_size(LIMIT);
        let mut c = match b.build::<_, SimBuf>(conn).await {
            Ok(c) => c,
            Err(e) => {
                rec.borrow_mut().build_err = Some(e.to_string());
                return;
            }
        };
        loop {
            let next = {
                let mut acc = Box::pin(c.accept());
                poll_fn(|cx| {
                    if let std::task::Poll::Ready(r) = std::future::Future::poll(acc.as_mut(), cx) {
                        return std::task::Poll::Ready(Some(r));
                    }
                    if done.is_open() {
                        return std::task::Poll::Ready(None);
                    }
                    done.register(cx);
                    std::task::Poll::Pending
                })
                .await
            };
            match next {
                None => return, // scenario over, nothing reported by the driver
                Some(Ok(Some(resolver))) => {
                    let rec = rec.clone();
                    let plans = plans.clone();
                    let sid = resolver.frame_stream.id().into_inner();
                    let slot = {
                        let mut r = rec.borrow_mut();
                        r.reqs.push(ReqObs::default());
                        let k = r.reqs.len() - 1;
                        r.by_stream.insert(sid, k);
                        k
                    };
                    exec::spawn(format!("srv-req{slot}"), async move {
                        let (req, mut s) = match resolver.resolve_request().await {
                            Ok(x) => x,
                            Err(e) => {
                                rec.borrow_mut().reqs[slot].headers_ok = Some(Err(sout(&e)));
                                return;
                            }
                        };
                        {
                            let mut r = rec.borrow_mut();
                            r.reqs[slot].headers_ok = Some(Ok(()));
                            r.reqs[slot].got_headers = fields_of(req.headers());
                            r.reqs[slot].xid = req.headers().get("x-id").and_then(|v| v.to_str().ok()).and_then(|s| s.parse().ok());
                        }
                        let after = rec.borrow().reqs[slot].xid.and_then(|i| plans.get(i)).map(|p| p.after).unwrap_or(0);
                        let pace = draw(4);
                        let mut body = vec![];
                        let mut failed = false;
                        loop {
                            match s.recv_data().await {
                                Ok(Some(d)) => body.extend(read_all(d)),
                                Ok(None) => {
                                    rec.borrow_mut().reqs[slot].data_end = Some(Ok(()));
                                    break;
                                }
                                Err(e) => {
                                    rec.borrow_mut().reqs[slot].data_end = Some(Err(sout(&e)));
                                    failed = true;
                                    break;
                                }
                            }
                        }
                        rec.borrow_mut().reqs[slot].body = body.clone();
                        let mut trailers = None;
                        if !failed {
                            match s.recv_trailers().await {
                                Ok(t) => {
                                    trailers = t.clone();
                                    rec.borrow_mut().reqs[slot].trailers = Some(Ok(t.map(|m| fields_of(&m))))
                                }
                                Err(e) => {
                                    rec.borrow_mut().reqs[slot].trailers = Some(Err(sout(&e)));
                                    failed = true;
                                }
                            }
                        }
                        if failed && draw(2) == 1 {
                            // an application (or a generic body adapter) that asks the failed request once more before it
                            // gives up: whatever the calls answer, the fault stays this request's own
                            obs::count("probe.failed_request_polled_again");
                            // (only the call that failed: recv_trailers() while a DATA frame is unfinished is outside the
                            //  documented pattern and trips FrameStream's own assertion - DESIGN 7.3)
                            let _ = s.recv_data().await;
                        }
                        if failed {
                            // what the application does with the faulty handle afterwards is drawn
                            match after {
                                0 => {}
                                1 => {
                                    let _ = s.finish().await;
                                }
                                _ => {
                                    let resp = http::Response::builder().status(500).body(()).unwrap();
                                    let _ = s.send_response(resp).await;
                                    let _ = s.send_data(SimBuf::one(vec![0u8; 10])).await;
                                }
                            }
                            return;
                        }
                        // echo
                        let r = async {
                            let resp = http::Response::builder().status(200).header("x-echo", "1").body(()).unwrap();
                            s.send_response(resp).await?;
                            let mut off = 0;
                            // the application is not infinitely fast: a drawn number of scheduler turns passes between
                            // its send calls, so that a fault can take effect between any two of them
                            while off < body.len() {
                                let n = (body.len() - off).min(4096);
                                s.send_data(SimBuf::one(body[off..off + n].to_vec())).await?;
                                off += n;
                                for _ in 0..pace {
                                    exec::yield_now().await;
                                }
                            }
                            if let Some(t) = trailers {
                                for _ in 0..pace * 2 {
                                    exec::yield_now().await;
                                }
                                s.send_trailers(t).await?;
                            }
                            s.finish().await
                        }
                        .await;
                        rec.borrow_mut().reqs[slot].send = Some(r.map_err(|e| sout(&e)));
                        if rec.borrow().reqs[slot].send.as_ref().map(|r| r.is_err()).unwrap_or(false) {
                            match after {
                                1 => {
                                    let _ = s.finish().await;
                                }
                                2 => {
                                    let _ = s.send_data(SimBuf::one(vec![0u8; 10])).await;
                                }
                                _ => {}
                            }
                        }
                    });
                }
                Some(Ok(None)) => {
                    rec.borrow_mut().driver = Some(Ok(()));
                    return;
                }
                Some(Err(e)) => {
                    rec.borrow_mut().driver = Some(Err(cout(&e)));
                    return;
                }
            }
        }
    });
}

fn judge_server(rec: &Rec, plans: &[ReqPlan], net: &Net) -> Result<(), Violation> {
    let mk = |rule: &str, d: String| Violation::new(rule, d).fact("role", "server");
    if let Some(e) = &rec.build_err {
        return Err(mk("C07.setup_failed", e.clone()));
    }
    let closes = net.closes_by(SERVER);
    if !closes.is_empty() {
        return Err(mk("C07.connection_closed", format!("server closed the connection with {:?} although only stream-scoped faults were injected: {:?}", closes.iter().map(|c| code_name(*c)).collect::<Vec<_>>(), plans.iter().map(|p| p.fault.clone()).collect::<Vec<_>>())).fact("code", code_name(closes[0])));
    }
    if let Some(Err(e)) = &rec.driver {
        return Err(mk("C07.driver_error", format!("accept() failed with {e}")));
    }
    for (i, p) in plans.iter().enumerate() {
        let id = (i as u64) << 2;
        let o = rec.by_stream.get(&id).map(|k| &rec.reqs[*k]);
        let fname = format!("{:?}", p.fault).split('(').next().unwrap().to_string();
        let v = |rule: &str, d: String| mk(rule, format!("request {i} (stream {id}, fault {:?}): {d}; observed {:?}", p.fault, o)).fact("fault", &fname);
        let Some(o) = o else {
            return Err(v("C07.request_not_accepted", "the request stream was never handed to the application".into()));
        };
        match &p.fault {
            Fault::None | Fault::Stop(_) => {
                if o.headers_ok != Some(Ok(())) {
                    return Err(v("C07.healthy_request_failed", "headers not delivered".into()));
                }
                if by_name(&o.got_headers) != by_name(&p.headers.iter().filter(|(n, _)| !n.starts_with(b":")).cloned().collect::<Vec<_>>()) {
                    return Err(v("C07.healthy_request_wrong_headers", "header fields differ".into()));
                }
                if o.body != p.body || o.data_end != Some(Ok(())) {
                    return Err(v("C07.healthy_request_wrong_body", format!("body: got {} bytes, sent {}", o.body.len(), p.body.len())));
                }
                if o.trailers != Some(Ok(p.trailers.clone())) {
                    return Err(v("C07.healthy_request_wrong_trailers", "trailers differ".into()));
                }
                let d = net.dir_ref(id, SERVER);
                match (&p.fault, &o.send) {
                    (_, Some(Ok(()))) => {
                        // response on the wire: 200, echo of the body, finished
                        let (fr, tail) = frames::segment(net.sent(id, SERVER));
                        let wire_body: Vec<u8> = fr.iter().filter(|f| f.ty == frames::DATA).flat_map(|f| f.payload.clone()).collect();
                        let status = fr.iter().find(|f| f.ty == frames::HEADERS).and_then(|f| qpack::decode(&f.payload).ok()).and_then(|fs| fs.iter().find(|(n, _)| n == b":status").map(|(_, v)| v.clone()));
                        if status.as_deref() != Some(b"200") || wire_body != p.body || tail != frames::Tail::Clean || d.map(|d| d.finish_calls).unwrap_or(0) == 0 {
                            return Err(v("C07.healthy_response_wrong_on_wire", format!("status {:?}, body {} bytes (expected {}), tail {:?}", status.map(|s| String::from_utf8_lossy(&s).into_owned()), wire_body.len(), p.body.len(), tail)));
                        }
                    }
                    (Fault::Stop(code), Some(Err(SOut::RemoteTerminate(c)))) if c == code => {}
                    (_, other) => return Err(v(if p.fault == Fault::None { "C07.healthy_response_failed" } else { "C07.wrong_stream_error" }, format!("send side result {:?}", other)).fact("got", format!("{:?}", other.as_ref().map(|r| r.as_ref().map_err(|e| e.to_string()))))),
                }
            }
            Fault::Reset(code, _) => {
                let term = SOut::RemoteTerminate(*code);
                let errs: Vec<&SOut> = [o.headers_ok.as_ref().and_then(|r| r.as_ref().err()), o.data_end.as_ref().and_then(|r| r.as_ref().err()), o.trailers.as_ref().and_then(|r| r.as_ref().err())].into_iter().flatten().collect();
                if errs.len() != 1 || *errs[0] != term {
                    return Err(v("C07.wrong_stream_error", format!("expected exactly one receive call to fail with {term}, got {:?}", errs)).fact("got", errs.first().map(|e| e.to_string()).unwrap_or("none".into())));
                }
                if !p.body.starts_with(&o.body) {
                    return Err(v("C07.reset_request_invented_bytes", "body is not a prefix".into()));
                }
            }
            Fault::Malformed(_) => {
                if o.headers_ok != Some(Err(SOut::Stream(0x10e))) {
                    return Err(v("C07.wrong_stream_error", "expected H3_MESSAGE_ERROR on that request".into()).fact("got", format!("{:?}", o.headers_ok)));
                }
                let reset_seen = net.dir_ref(id, SERVER).map(|d| d.reset_calls.contains(&0x10e)).unwrap_or(false);
                let stop_seen = net.dir_ref(id, CLIENT).map(|d| d.stop_calls.contains(&0x10e)).unwrap_or(false);
                if !reset_seen || !stop_seen {
                    return Err(v("C07.peer_not_told", format!("peer must observe reset and stop with H3_MESSAGE_ERROR (reset {reset_seen}, stop {stop_seen})")));
                }
            }
            Fault::Oversized => {
                if !matches!(o.headers_ok, Some(Err(SOut::HeaderTooBig(_, LIMIT)))) {
                    return Err(v("C07.wrong_stream_error", "expected a header-too-big outcome".into()).fact("got", format!("{:?}", o.headers_ok)));
                }
                let (fr, _) = frames::segment(net.sent(id, SERVER));
                let status = fr.iter().find(|f| f.ty == frames::HEADERS).and_then(|f| qpack::decode(&f.payload).ok()).and_then(|fs| fs.iter().find(|(n, _)| n == b":status").map(|(_, v)| v.clone()));
                if status.as_deref() != Some(b"431") {
                    return Err(v("C07.no_431", format!("expected a 431 response on the wire, got status {:?}", status)));
                }
            }
            Fault::FinFirst => {
                if o.headers_ok != Some(Err(SOut::Stream(0x10d))) {
                    return Err(v("C07.wrong_stream_error", "expected H3_REQUEST_INCOMPLETE".into()).fact("got", format!("{:?}", o.headers_ok)));
                }
            }
        }
    }
    Ok(())
}

// ------------------------------------------------------------------ client under test

fn spawn_client(ex: &mut Exec, net: &Shared, rec: &Rc<RefCell<Rec>>, n: usize, req_bodies: Rc<Vec<Vec<u8>>>, afters: Vec<u8>, done: Rc<Gate>) {
    let conn: SimConn = net::conn(net, CLIENT);
    let rec = rec.clone();
    ex.spawn("client", async move {
        let mut b = h3::client::builder();
        b.send_grease(draw(2) == 1);
        b.max_field_section_size(LIMIT);
        let (mut driver, mut sr) = match b.build::<_, _, SimBuf>(conn).await {
            Ok(x) => x,
            Err(e) => {
                rec.borrow_mut().build_err = Some(e.to_string());
                return;
            }
        };
        let rec_d = rec.clone();
        let done_d = done.clone();
        exec::spawn("client-driver", async move {
            let r = poll_fn(|cx| {
                if let std::task::Poll::Ready(e) = driver.poll_close(cx) {
                    return std::task::Poll::Ready(Some(e));
                }
                if done_d.is_open() {
                    return std::task::Poll::Ready(None);
                }
                done_d.register(cx);
                std::task::Poll::Pending
            })
            .await;
            if let Some(e) = r {
                rec_d.borrow_mut().driver = Some(Err(cout(&e)));
            }
            std::future::pending::<()>().await;
            drop(driver);
        });
        rec.borrow_mut().reqs = vec![ReqObs::default(); n];
        // requests are opened in order so that request i uses stream 4*i
        for i in 0..n {
            let req = http::Request::builder().method("POST").uri("https://example.com/c07").header("x-id", i.to_string()).body(()).unwrap();
            let s = match sr.send_request(req).await {
                Ok(s) => s,
                Err(e) => {
                    rec.borrow_mut().reqs[i].send = Some(Err(sout(&e)));
                    continue;
                }
            };
            rec.borrow_mut().by_stream.insert(s.id().into_inner(), i);
            let rec = rec.clone();
            let body = req_bodies[i].clone();
            let after = afters[i];
            let (mut tx, mut rx) = s.split();
            let rec2 = rec.clone();
            exec::spawn(format!("cli-send{i}"), async move {
                let r = async {
                    let mut off = 0;
                    while off < body.len() {
                        let k = (body.len() - off).min(3000);
                        tx.send_data(SimBuf::one(body[off..off + k].to_vec())).await?;
                        off += k;
                    }
                    tx.finish().await
                }
                .await;
                let failed = r.is_err();
                rec2.borrow_mut().reqs[i].send = Some(r.map_err(|e| sout(&e)));
                if failed {
                    match after {
                        1 => {
                            let _ = tx.finish().await;
                        }
                        2 => {
                            let _ = tx.send_data(SimBuf::one(vec![1u8; 5])).await;
                        }
                        _ => {}
                    }
                }
            });
            exec::spawn(format!("cli-recv{i}"), async move {
                match rx.recv_response().await {
                    Ok(resp) => {
                        let mut r = rec.borrow_mut();
                        r.reqs[i].headers_ok = Some(Ok(()));
                        r.reqs[i].got_headers = fields_of(resp.headers());
                    }
                    Err(e) => {
                        rec.borrow_mut().reqs[i].headers_ok = Some(Err(sout(&e)));
                        return;
                    }
                }
                loop {
                    match rx.recv_data().await {
                        Ok(Some(d)) => {
                            let v = read_all(d);
                            rec.borrow_mut().reqs[i].body.extend(v)
                        }
                        Ok(None) => {
                            rec.borrow_mut().reqs[i].data_end = Some(Ok(()));
                            break;
                        }
                        Err(e) => {
                            rec.borrow_mut().reqs[i].data_end = Some(Err(sout(&e)));
                            if draw(2) == 1 {
                                // asked once more before giving up (see the server application)
                                obs::count("probe.failed_request_polled_again");
                                let _ = rx.recv_data().await;
                            }
                            return;
                        }
                    }
                }
                match rx.recv_trailers().await {
                    Ok(t) => rec.borrow_mut().reqs[i].trailers = Some(Ok(t.map(|m| fields_of(&m)))),
                    Err(e) => rec.borrow_mut().reqs[i].trailers = Some(Err(sout(&e))),
                }
            });
        }
        done.wait().await;
        drop(sr);
    });
}

fn judge_client(rec: &Rec, plans: &[ReqPlan], req_bodies: &[Vec<u8>], net: &Net) -> Result<(), Violation> {
    let mk = |rule: &str, d: String| Violation::new(rule, d).fact("role", "client");
    if let Some(e) = &rec.build_err {
        return Err(mk("C07.setup_failed", e.clone()));
    }
    let closes = net.closes_by(CLIENT);
    if !closes.is_empty() {
        return Err(mk("C07.connection_closed", format!("client closed the connection with {:?} although only stream-scoped faults were injected: {:?}", closes.iter().map(|c| code_name(*c)).collect::<Vec<_>>(), plans.iter().map(|p| p.fault.clone()).collect::<Vec<_>>())).fact("code", code_name(closes[0])));
    }
    if let Some(Err(e)) = &rec.driver {
        return Err(mk("C07.driver_error", format!("poll_close ended with {e}")));
    }
    for (i, p) in plans.iter().enumerate() {
        let id = (i as u64) << 2;
        let o = &rec.reqs[i];
        let fname = format!("{:?}", p.fault).split('(').next().unwrap().to_string();
        let v = |rule: &str, d: String| mk(rule, format!("request {i} (stream {id}, fault {:?}): {d}; observed {:?}", p.fault, o)).fact("fault", &fname);
        if rec.by_stream.get(&id) != Some(&i) {
            // STOP_SENDING may arrive while send_request is still writing the HEADERS frame: the request is
            // then refused with the stream-level error, which is the property's demand
            if let (Fault::Stop(code), Some(Err(SOut::RemoteTerminate(c)))) = (&p.fault, &o.send) {
                if c == code {
                    continue;
                }
            }
            return Err(v("C07.request_not_opened", "send_request did not open the expected stream".into()));
        }
        // the request as written by h3 (the peer reads it from the wire)
        let check_request_wire = |complete: bool| -> Result<(), Violation> {
            let (fr, tail) = frames::segment(net.sent(id, CLIENT));
            let wire_body: Vec<u8> = fr.iter().filter(|f| f.ty == frames::DATA).flat_map(|f| f.payload.clone()).collect();
            if complete && (wire_body != req_bodies[i] || tail != frames::Tail::Clean) {
                return Err(v("C07.healthy_request_wrong_on_wire", format!("request body on the wire {} bytes, submitted {}", wire_body.len(), req_bodies[i].len())));
            }
            if !complete && !req_bodies[i].starts_with(&wire_body) {
                return Err(v("C07.healthy_request_wrong_on_wire", "request body on the wire is not a prefix of what was submitted".into()));
            }
            Ok(())
        };
        let healthy_recv = |o: &ReqObs| -> Result<(), Violation> {
            if o.headers_ok != Some(Ok(())) {
                return Err(v("C07.healthy_response_failed", "response headers not delivered".into()));
            }
            if by_name(&o.got_headers) != by_name(&p.headers.iter().filter(|(n, _)| !n.starts_with(b":")).cloned().collect::<Vec<_>>()) {
                return Err(v("C07.healthy_response_wrong_headers", "header fields differ".into()));
            }
            if o.body != p.body || o.data_end != Some(Ok(())) {
                return Err(v("C07.healthy_response_wrong_body", format!("body: got {} bytes, sent {}", o.body.len(), p.body.len())));
            }
            if o.trailers != Some(Ok(p.trailers.clone())) {
                return Err(v("C07.healthy_response_wrong_trailers", "trailers differ".into()));
            }
            Ok(())
        };
        match &p.fault {
            Fault::None => {
                healthy_recv(o)?;
                if o.send != Some(Ok(())) {
                    return Err(v("C07.healthy_request_failed", format!("send side result {:?}", o.send)));
                }
                check_request_wire(true)?;
            }
            Fault::Stop(code) => {
                healthy_recv(o)?;
                match &o.send {
                    Some(Ok(())) => check_request_wire(true)?,
                    Some(Err(SOut::RemoteTerminate(c))) if c == code => check_request_wire(false)?,
                    other => return Err(v("C07.wrong_stream_error", format!("send side result {:?}", other)).fact("got", format!("{:?}", other.as_ref().map(|r| r.as_ref().map_err(|e| e.to_string()))))),
                }
            }
            Fault::Reset(code, _) => {
                let term = SOut::RemoteTerminate(*code);
                let errs: Vec<&SOut> = [o.headers_ok.as_ref().and_then(|r| r.as_ref().err()), o.data_end.as_ref().and_then(|r| r.as_ref().err()), o.trailers.as_ref().and_then(|r| r.as_ref().err())].into_iter().flatten().collect();
                if errs.len() != 1 || *errs[0] != term {
                    return Err(v("C07.wrong_stream_error", format!("expected exactly one receive call to fail with {term}, got {:?}", errs)).fact("got", errs.first().map(|e| e.to_string()).unwrap_or("none".into())));
                }
                if !p.body.starts_with(&o.body) {
                    return Err(v("C07.reset_response_invented_bytes", "body is not a prefix".into()));
                }
            }
            Fault::Malformed(_) => {
                if o.headers_ok != Some(Err(SOut::Stream(0x10e))) {
                    return Err(v("C07.wrong_stream_error", "expected H3_MESSAGE_ERROR on that response".into()).fact("got", format!("{:?}", o.headers_ok)));
                }
            }
            Fault::Oversized => {
                if !matches!(o.headers_ok, Some(Err(SOut::HeaderTooBig(_, LIMIT)))) {
                    return Err(v("C07.wrong_stream_error", "expected a header-too-big outcome".into()).fact("got", format!("{:?}", o.headers_ok)));
                }
            }
            Fault::FinFirst => {}
        }
    }
    Ok(())
}

impl Check for C07 {
    fn id(&self) -> &'static str {
        "C07"
    }
    fn meta(&self) -> Meta {
        Meta {
            level: "exploration",
            rule: "2-4 concurrent requests between the real endpoint under test (server role or client role) and a reference peer; a drawn subset (possibly empty, possibly all) suffers exactly one stream-scoped fault: RESET(any code) at a drawn byte offset of the peer's sending side incl. just past the last byte (RESET instead of FIN), STOP_SENDING(any code) against h3's sending side at a drawn script position, a validly encoded but malformed message (upper-case name, bad value byte, unknown pseudo-header, missing :method/:status, contradictory authority, empty field name, blank in a name), a field section one over the limit, FIN before HEADERS (server role); the others carry generated messages that are echoed; what the application does with a faulty handle afterwards (one time in two it first calls recv_data once more; then drop, finish, retry a send) is drawn; all interleavings of request tasks, deliveries and the fault are drawn; non-trivial = at least one fault and one healthy request and >= 2 chunk deliveries; distinct = distinct schedule signatures",
            real: &["h3 server (Connection, RequestResolver, RequestStream) / h3 client (Connection driver, SendRequest, split RequestStream halves)", "h3 connection/frame/stream/qpack/proto modules, error propagation"],
            stub: &["QUIC transport (SimQuic)", "executor (simexec)", "reference peer (script + reference codecs, reads h3's output from the wire log)", "applications (echo server / concurrent client requests)"],
            assumptions: &["client role: the wire codes of stop_sending after a malformed/oversized response are not judged", "a STOP_SENDING that arrives after h3 finished sending legitimately goes unnoticed"],
            quick_runs: 600_000,
            thorough_runs: 24_000_000,
        }
    }
    fn run(&self, ctx: &RunCtx) -> RunOut {
        let role_server = draw(2) == 0;
        let n = 2 + draw_usize(3);
        let mut plans: Vec<ReqPlan> = vec![];
        for i in 0..n {
            let fault = if chance(2, 5) { gen_fault(role_server) } else { Fault::None };
            plans.push(plan(i, role_server, fault));
        }
        // resets: draw the byte offset now that the bytes are known
        for p in plans.iter_mut() {
            if let Fault::Reset(c, _) = p.fault {
                // anywhere in the message, and - one time in four - just past its last byte (RESET instead of FIN)
                let off = if chance(1, 4) { p.bytes.len() } else { draw_usize(p.bytes.len()) };
                if off == p.bytes.len() {
                    obs::count("probe.reset_instead_of_fin");
                }
                p.fault = Fault::Reset(c, off);
            }
        }
        let mut cfg = NetCfg::drawn();
        cfg.drop_send = draw(3) as u8;
        let net = Net::new(cfg);
        let peer = if role_server { CLIENT } else { SERVER };
        let h3side = 1 - peer;
        // the reference peer's script: control stream, then the messages piecewise, interleaved
        let mut steps: Vec<(usize, u8, Vec<u8>)> = vec![]; // (request, action 0 write 1 fin 2 reset 3 stop, bytes)
        {
            let mut nn = net.lock().unwrap();
            peer_control(&mut nn, peer, &[(frames::SET_MAX_FIELD_SECTION, 1 << 20)]);
            let mut per: Vec<Vec<(usize, u8, Vec<u8>)>> = vec![];
            for (i, p) in plans.iter().enumerate() {
                let id = (i as u64) << 2;
                if role_server {
                    nn.raw_open(id);
                }
                let mut v = vec![];
                let upto = match p.fault {
                    Fault::Reset(_, off) => off,
                    _ => p.bytes.len(),
                };
                let k = 1 + draw_usize(3);
                let mut off = 0;
                for j in 0..k {
                    let end = if j + 1 == k { upto } else { off + draw_usize(upto - off + 1) };
                    if end > off {
                        v.push((i, 0, p.bytes[off..end].to_vec()));
                    }
                    off = end;
                }
                match p.fault {
                    Fault::Reset(..) => v.push((i, 2, vec![])),
                    Fault::Stop(_) => {
                        // the STOP_SENDING is issued by a watcher task of its own (below), once h3 has written a
                        // drawn number of bytes on the stream; the script just completes the message
                        v.push((i, 1, vec![]));
                    }
                    _ => v.push((i, 1, vec![])),
                }
                per.push(v);
            }
            while per.iter().any(|s| !s.is_empty()) {
                let live: Vec<usize> = per.iter().enumerate().filter(|(_, s)| !s.is_empty()).map(|(i, _)| i).collect();
                let i = live[draw_usize(live.len())];
                steps.push(per[i].remove(0));
            }
        }
        let rec: Rc<RefCell<Rec>> = Default::default();
        let done = Rc::new(Gate::default());
        let mut ex = Exec::new();
        ex.max_steps = 60_000;
        ex.spurious = draw(3) == 1;
        let req_bodies: Rc<Vec<Vec<u8>>> = Rc::new((0..n).map(|i| (0..*pick(&[0usize, 100, 9000])).map(|k| ((k * 7 + i) % 251) as u8).collect()).collect());
        if role_server {
            spawn_server(&mut ex, &net, &rec, Rc::new(plans.clone()), done.clone());
        } else {
            spawn_client(&mut ex, &net, &rec, n, req_bodies.clone(), plans.iter().map(|p| p.after).collect(), done.clone());
        }
        // STOP_SENDING watchers: a peer cannot stop a stream that does not exist yet, and where in h3's sending the
        // stop takes effect matters (first write, between two body pieces, between the body and the trailers,
        // after everything): it is issued once h3 has written at least a drawn number of bytes on the stream
        for (i, p) in plans.iter().enumerate() {
            if let Fault::Stop(c) = p.fault {
                let id = (i as u64) << 2;
                let threshold = if chance(1, 2) { 1 } else { 1 + draw_usize(p.body.len().max(req_bodies[i].len()) + 80) };
                let net = net.clone();
                ex.spawn(format!("peer-stop{i}"), async move {
                    for _ in 0..3000 {
                        if net.lock().unwrap().sent(id, 1 - peer).len() >= threshold {
                            break;
                        }
                        exec::yield_now().await;
                    }
                    let mut n = net.lock().unwrap();
                    if n.sent(id, 1 - peer).is_empty() {
                        return;
                    }
                    n.raw_stop(id, peer, c);
                    obs::count("fault.stop_sending_injected");
                    if threshold > 1 {
                        obs::count("probe.stop_sending_after_part_of_the_message");
                    }
                });
            }
        }
        {
            let net = net.clone();
            let plans = plans.clone();
            ex.spawn("peer", async move {
                for (i, act, bytes) in steps {
                    let id = (i as u64) << 2;
                    if act == 3 {
                        // a peer cannot ask to stop a stream that does not exist yet: wait (bounded) until h3 has
                        // written something on it
                        for _ in 0..300 {
                            if !net.lock().unwrap().sent(id, 1 - peer).is_empty() {
                                break;
                            }
                            exec::yield_now().await;
                        }
                        if net.lock().unwrap().sent(id, 1 - peer).is_empty() {
                            continue;
                        }
                    }
                    {
                        let mut n = net.lock().unwrap();
                        match act {
                            0 => n.raw_write(id, peer, &bytes),
                            1 => n.raw_fin(id, peer),
                            2 => {
                                if let Fault::Reset(c, _) = plans[i].fault {
                                    n.raw_reset(id, peer, c);
                                    obs::count("fault.reset_injected");
                                }
                            }
                            _ => {
                                if let Fault::Stop(c) = plans[i].fault {
                                    n.raw_stop(id, peer, c);
                                    obs::count("fault.stop_sending_injected");
                                }
                            }
                        }
                    }
                    exec::yield_now().await;
                }
            });
        }
        let stop = ex.run(&mut NetWorld(net.clone()));
        if let Some(p) = &ex.panic {
            if p.in_harness() {
                return RunOut { harness_error: Some(format!("harness panic: {} at {}", p.msg, p.loc)), ..Default::default() };
            }
            return RunOut::fail(Violation::new("C07.panic", format!("h3 panicked in task {}: {} at {}", p.task, p.msg, p.loc)).fact("at", p.loc.rsplit('/').next().unwrap_or("")));
        }
        if stop == Stop::StepCap {
            return RunOut::fail(Violation::new("C07.step_cap", "no quiescence within the step cap".to_string()));
        }
        for p in &plans {
            match p.fault {
                Fault::Malformed(_) => obs::count("fault.malformed_message"),
                Fault::Oversized => obs::count("fault.oversized_section"),
                Fault::FinFirst => obs::count("fault.fin_before_headers"),
                _ => {}
            }
        }
        obs::note(|| format!("role_server={role_server} faults {:?}", plans.iter().map(|p| p.fault.clone()).collect::<Vec<_>>()));
        obs::note(|| format!("observed {:?}", rec.borrow()));
        // judge at quiescence, before anything is torn down
        let res = {
            let nn = net.lock().unwrap();
            let r = rec.borrow();
            if role_server {
                judge_server(&r, &plans, &nn)
            } else {
                judge_client(&r, &plans, &req_bodies, &nn)
            }
        };
        let _ = h3side;
        done.open();
        ex.run(&mut NetWorld(net.clone()));
        drop(ex);
        if let Err(v) = res {
            return RunOut::fail(v);
        }
        let nf = plans.iter().filter(|p| p.fault != Fault::None).count();
        let nontrivial = nf >= 1 && nf < n && obs::counter("net.chunk_delivered") >= 2;
        let mut out = RunOut::ok(nontrivial);
        if ctx.want_sample {
            out.sample = Some(json!({"role": if role_server {"server"} else {"client"}, "requests": n, "faults": plans.iter().map(|p| format!("{:?}", p.fault)).collect::<Vec<_>>(), "after_error_behaviour": plans.iter().map(|p| p.after).collect::<Vec<_>>(), "body_sizes": plans.iter().map(|p| p.body.len()).collect::<Vec<_>>()}));
        }
        out
    }
}

//! C03 — request streams accept exactly the RFC 9114 §4.1 frame sequences.
//! Real: h3 server / client connection, request stream state machine, FrameStream, QPACK stateless.
//! Stub: transport (SimQuic), scripted peer (reference codecs), application following the documented pattern.
use super::common::*;
use super::peer::*;
use crate::choice::{chance, draw, draw_usize, pick};
use crate::exec::{self, Exec, Stop};
use crate::net::{self, Net, NetCfg, NetWorld, Shared, SimBuf, SimConn, CLIENT, SERVER};
use crate::obs;
use crate::refs::frames;
use crate::refs::qpack::Field;
use crate::refs::varint;
use crate::runner::{Check, Meta, RunCtx, RunOut, Tier, Violation};
use serde_json::json;
use std::cell::RefCell;
use std::future::poll_fn;
use std::rc::Rc;

pub struct C03;

#[derive(Clone, Debug, PartialEq)]
pub enum Tok {
    Headers,
    Data(usize),
    Unknown(usize),
    CancelPush,
    Settings,
    Goaway,
    MaxPushId,
    PushPromise,
    H2(u64),
}
#[derive(Clone, Debug, PartialEq)]
pub enum Ending {
    Fin,
    Open,
    Reset(u64, usize),
}
#[derive(Clone, Copy, Debug, PartialEq)]
pub enum Stage {
    Headers,
    Body,
    Trailers,
}

#[derive(Default, Debug, Clone)]
pub struct Obs {
    pub resolve: Option<Result<(), SOut>>,
    pub body: Vec<u8>,
    pub data_end: Option<Result<(), SOut>>,
    pub trailers: Option<Result<Option<Vec<Field>>, SOut>>,
    pub driver: Option<Result<(), COut>>,
    pub build_err: Option<COut>,
    pub got_headers: Vec<Field>,
    pub start_line: String,
}

fn body_byte(i: usize) -> u8 {
    ((i * 7 + 3) % 251) as u8
}

thread_local! {
    /// this run's endpoint is configured with a field-section limit of `SMALL_LIMIT` and the trailers are larger
    static BIG_TRAILERS: std::cell::Cell<bool> = const { std::cell::Cell::new(false) };
}
pub const SMALL_LIMIT: u64 = 300;
pub fn trailer_fields() -> Vec<Field> {
    let mut t = vec![f("x-trailer", "t1"), f("x-checksum", "abc")];
    if BIG_TRAILERS.with(|b| b.get()) {
        t.push((b"x-large".to_vec(), vec![b'L'; 400]));
    }
    t
}
fn big_trailers() -> bool {
    BIG_TRAILERS.with(|b| b.get())
}

/// bytes of a token sequence; `role_server`: the sequence is a request (else a response)
pub fn encode_seq(seq: &[Tok], role_server: bool) -> Vec<u8> {
    let mut out = vec![];
    let mut seen_headers = 0;
    let mut body_off = 0usize;
    for t in seq {
        match t {
            Tok::Headers => {
                let fields = if seen_headers == 0 {
                    if role_server {
                        request_fields("POST", "/c03")
                    } else {
                        response_fields(200)
                    }
                } else {
                    trailer_fields()
                };
                seen_headers += 1;
                out.extend(headers_frame(&fields));
            }
            Tok::Data(n) => {
                let p: Vec<u8> = (0..*n).map(|i| body_byte(body_off + i)).collect();
                body_off += n;
                out.extend(frame_forms(frames::DATA, &p));
            }
            Tok::Unknown(n) => out.extend(frame_forms(*pick(&UNKNOWN_TYPES), &vec![0xee; *n])),
            Tok::CancelPush => out.extend(frames::frame(frames::CANCEL_PUSH, &varint::encode(1))),
            Tok::Settings => out.extend(frames::settings(&[(frames::SET_MAX_FIELD_SECTION, 1000)])),
            Tok::Goaway => out.extend(frames::goaway(0)),
            Tok::MaxPushId => out.extend(frames::frame(frames::MAX_PUSH_ID, &varint::encode(3))),
            Tok::PushPromise => {
                let mut p = varint::encode(0);
                p.extend(crate::refs::qpack::encode_plain(&request_fields("GET", "/pushed")));
                out.extend(frames::frame(frames::PUSH_PROMISE, &p));
            }
            Tok::H2(t) => out.extend(frames::frame(*t, &[0, 0, 0, 1])),
        }
    }
    out
}

#[derive(Debug, Clone, PartialEq)]
pub enum Verdict {
    /// sequence violates §4.1 at this stage -> connection error H3_FRAME_UNEXPECTED
    Unexpected(Stage),
    /// FIN reached in this stage
    Fin(Stage),
    /// stream left open in this stage
    Open(Stage),
}
pub struct RefWalk {
    pub verdict: Verdict,
    pub body: Vec<u8>,
    pub has_trailers: bool,
    /// index of the violating token
    pub bad_at: Option<usize>,
}
/// RFC 9114 §4.1 reference state machine
pub fn walk(seq: &[Tok], fin: bool) -> RefWalk {
    let mut stage = Stage::Headers;
    let mut body = vec![];
    let mut off = 0usize;
    for (i, t) in seq.iter().enumerate() {
        match (stage, t) {
            (_, Tok::Unknown(_)) => {}
            (Stage::Headers, Tok::Headers) => stage = Stage::Body,
            (Stage::Body, Tok::Data(n)) => {
                body.extend((0..*n).map(|k| body_byte(off + k)));
                off += n;
            }
            (Stage::Body, Tok::Headers) => stage = Stage::Trailers,
            (s, _) => return RefWalk { verdict: Verdict::Unexpected(s), body, has_trailers: stage == Stage::Trailers, bad_at: Some(i) },
        }
    }
    let v = if fin { Verdict::Fin(stage) } else { Verdict::Open(stage) };
    RefWalk { verdict: v, body, has_trailers: stage == Stage::Trailers, bad_at: None }
}

fn gen_seq(max_len: usize, role_server: bool) -> Vec<Tok> {
    // a valid sequence ...
    let mut seq = vec![];
    let unk = |seq: &mut Vec<Tok>| {
        if chance(1, 4) {
            seq.push(Tok::Unknown(if chance(1, 2) { 0 } else { 1 + draw_usize(9) }))
        }
    };
    unk(&mut seq);
    seq.push(Tok::Headers);
    let nbody = draw_usize(4);
    for _ in 0..nbody {
        unk(&mut seq);
        seq.push(Tok::Data(*pick(&[5usize, 0, 1, 64, 200, 3])));
    }
    if chance(1, 3) {
        unk(&mut seq);
        seq.push(Tok::Headers);
        unk(&mut seq);
    }
    // ... plus, half of the time, one deviation
    if chance(1, 2) {
        let mut alphabet = vec![Tok::Headers, Tok::Data(0), Tok::Data(4), Tok::Unknown(0), Tok::Unknown(3), Tok::CancelPush, Tok::Settings, Tok::Goaway, Tok::MaxPushId, Tok::H2(*pick(&frames::H2_TYPES))];
        if role_server {
            alphabet.push(Tok::PushPromise);
        }
        let t = pick(&alphabet).clone();
        let pos = draw_usize(seq.len() + 1);
        match draw(3) {
            0 => seq.insert(pos, t),
            1 if pos < seq.len() => seq[pos] = t,
            _ if pos < seq.len() => {
                seq.remove(pos);
            }
            _ => seq.push(t),
        }
    }
    seq.truncate(max_len);
    seq
}

/// up to `$max` recv_data calls on `$s`; evaluates to 0 (more to read), 1 (end of body reported), 2 (failed)
macro_rules! c03_body {
    ($s:expr, $r:expr, $max:expr) => {{
        let mut state = 0u8;
        let mut calls = 0usize;
        while calls < $max {
            calls += 1;
            match $s.recv_data().await {
                Ok(Some(d)) => {
                    let v = read_all(d);
                    obs::ev("app.recv_data", 0, v.len() as u64);
                    $r.borrow_mut().body.extend(v)
                }
                Ok(None) => {
                    $r.borrow_mut().data_end = Some(Ok(()));
                    state = 1;
                    break;
                }
                Err(e) => {
                    $r.borrow_mut().data_end = Some(Err(sout(&e)));
                    state = 2;
                    break;
                }
            }
        }
        state
    }};
}

pub(crate) fn run_server(net: &Shared, rec: &Rc<RefCell<Obs>>, ex: &mut Exec, split_after: usize) {
    let conn: SimConn = net::conn(net, SERVER);
    let r = rec.clone();
    ex.spawn("srv", async move {
        let mut b = h3::server::builder();
        b.send_grease(draw(2) == 1);
        if big_trailers() {
            b.max_field_section_size(SMALL_LIMIT);
        }
        let mut c = match b.build::<_, SimBuf>(conn).await {
            Ok(c) => c,
            Err(e) => {
                r.borrow_mut().build_err = Some(cout(&e));
                return;
            }
        };
        loop {
            match c.accept().await {
                Ok(Some(resolver)) => {
                    let r2 = r.clone();
                    exec::spawn("req", async move {
                        let (req, mut s) = match resolver.resolve_request().await {
                            Ok(x) => x,
                            Err(e) => {
                                r2.borrow_mut().resolve = Some(Err(sout(&e)));
                                return;
                            }
                        };
                        {
                            let mut o = r2.borrow_mut();
                            o.resolve = Some(Ok(()));
                            o.start_line = format!("{} {}", req.method(), req.uri());
                            o.got_headers = fields_of(req.headers());
                        }
                        let resp = http::Response::builder().status(200).body(()).unwrap();
                        if split_after > 0 {
                            // the application may split the stream in the middle of the body
                            let st = c03_body!(s, r2, split_after);
                            if st == 2 {
                                return;
                            }
                            obs::count("probe.split_in_the_middle_of_the_body");
                            let (mut tx, mut rx) = s.split();
                            if st == 0 && c03_body!(rx, r2, usize::MAX) == 2 {
                                return;
                            }
                            match rx.recv_trailers().await {
                                Ok(t) => r2.borrow_mut().trailers = Some(Ok(t.map(|m| fields_of(&m)))),
                                Err(e) => {
                                    r2.borrow_mut().trailers = Some(Err(sout(&e)));
                                    return;
                                }
                            }
                            if tx.send_response(resp).await.is_ok() {
                                let _ = tx.finish().await;
                            }
                            return;
                        }
                        if c03_body!(s, r2, usize::MAX) == 2 {
                            return;
                        }
                        match s.recv_trailers().await {
                            Ok(t) => r2.borrow_mut().trailers = Some(Ok(t.map(|m| fields_of(&m)))),
                            Err(e) => {
                                r2.borrow_mut().trailers = Some(Err(sout(&e)));
                                return;
                            }
                        }
                        if s.send_response(resp).await.is_ok() {
                            let _ = s.finish().await;
                        }
                    });
                }
                Ok(None) => {
                    r.borrow_mut().driver = Some(Ok(()));
                    return;
                }
                Err(e) => {
                    r.borrow_mut().driver = Some(Err(cout(&e)));
                    return;
                }
            }
        }
    });
}

pub(crate) fn run_client(net: &Shared, rec: &Rc<RefCell<Obs>>, ex: &mut Exec, split_after: usize) {
    let conn: SimConn = net::conn(net, CLIENT);
    let r = rec.clone();
    ex.spawn("cli", async move {
        let mut b = h3::client::builder();
        b.send_grease(draw(2) == 1);
        if big_trailers() {
            b.max_field_section_size(SMALL_LIMIT);
        }
        let (mut driver, mut sr) = match b.build::<_, _, SimBuf>(conn).await {
            Ok(x) => x,
            Err(e) => {
                r.borrow_mut().build_err = Some(cout(&e));
                return;
            }
        };
        let r3 = r.clone();
        exec::spawn("drv", async move {
            let e = poll_fn(|cx| driver.poll_close(cx)).await;
            r3.borrow_mut().driver = Some(Err(cout(&e)));
        });
        let req = http::Request::builder().method("GET").uri("https://example.com/c03").body(()).unwrap();
        let mut s = match sr.send_request(req).await {
            Ok(s) => s,
            Err(e) => {
                r.borrow_mut().resolve = Some(Err(sout(&e)));
                return;
            }
        };
        let _ = s.finish().await;
        match s.recv_response().await {
            Ok(resp) => {
                let mut o = r.borrow_mut();
                o.resolve = Some(Ok(()));
                o.start_line = format!("{}", resp.status().as_u16());
                o.got_headers = fields_of(resp.headers());
            }
            Err(e) => {
                r.borrow_mut().resolve = Some(Err(sout(&e)));
                // keep the SendRequest alive: dropping the last one closes the connection
                std::future::pending::<()>().await;
                drop(sr);
                return;
            }
        }
        if split_after > 0 {
            let st = c03_body!(s, r, split_after);
            if st != 2 {
                obs::count("probe.split_in_the_middle_of_the_body");
                let (tx, mut rx) = s.split();
                let st = if st == 0 { c03_body!(rx, r, usize::MAX) } else { st };
                if st == 1 {
                    match rx.recv_trailers().await {
                        Ok(t) => r.borrow_mut().trailers = Some(Ok(t.map(|m| fields_of(&m)))),
                        Err(e) => r.borrow_mut().trailers = Some(Err(sout(&e))),
                    }
                }
                std::future::pending::<()>().await;
                drop(tx);
            }
            std::future::pending::<()>().await;
            drop(sr);
            return;
        }
        if c03_body!(s, r, usize::MAX) == 2 {
            std::future::pending::<()>().await;
        }
        match s.recv_trailers().await {
            Ok(t) => r.borrow_mut().trailers = Some(Ok(t.map(|m| fields_of(&m)))),
            Err(e) => r.borrow_mut().trailers = Some(Err(sout(&e))),
        }
        std::future::pending::<()>().await;
        drop(sr);
    });
}

pub fn stage_name(s: Stage) -> &'static str {
    match s {
        Stage::Headers => "headers",
        Stage::Body => "body",
        Stage::Trailers => "trailers",
    }
}

fn judge(o: &Obs, w: &RefWalk, seq: &[Tok], ending: &Ending, role_server: bool, net: &Net, sent_len: usize, all_len: usize) -> Result<(), Violation> {
    let h3side = if role_server { SERVER } else { CLIENT };
    let conn_unexpected = SOut::Conn(COut::Local(0x105));
    let closes = net.closes_by(h3side);
    let tokname = |i: Option<usize>| i.map(|i| format!("{:?}", seq[i]).split('(').next().unwrap().to_string()).unwrap_or_default();
    let mk = |rule: &str, detail: String| Violation::new(rule, detail).fact("role", if role_server { "server" } else { "client" });
    if let Some(e) = &o.build_err {
        return Err(mk("C03.setup_failed", format!("connection setup failed: {e}")));
    }
    if let Ending::Reset(code, _) = ending {
        // relaxed, prefix-consistent judgement
        let bad_in_prefix = w.bad_at.is_some() && sent_len == all_len;
        let ok_err = |e: &SOut| *e == SOut::RemoteTerminate(*code) || (bad_in_prefix && *e == conn_unexpected) || (w.bad_at.is_some() && *e == conn_unexpected && sent_len >= 1);
        if !w.body.starts_with(&o.body) {
            return Err(mk("C03.body_not_prefix_under_reset", format!("body {:?} is not a prefix of {:?}", o.body, w.body)));
        }
        let mut errs: Vec<&SOut> = vec![];
        if let Some(Err(e)) = &o.resolve {
            errs.push(e)
        }
        if let Some(Err(e)) = &o.data_end {
            errs.push(e)
        }
        if let Some(Err(e)) = &o.trailers {
            errs.push(e)
        }
        for e in &errs {
            if !ok_err(e) {
                // a client seeing RESET before any HEADERS is not specified by the property; FIN-before-headers likewise
                return Err(mk("C03.wrong_error_under_reset", format!("error {e} (expected RemoteTerminate({}){})", code_name(*code), if w.bad_at.is_some() { " or H3_FRAME_UNEXPECTED" } else { "" })).fact("got", e.to_string()));
            }
        }
        if errs.is_empty() {
            let all_done = o.trailers.is_some();
            return Err(mk(if all_done { "C03.clean_end_under_reset" } else { "C03.call_pending_after_reset" }, format!("peer reset the stream but the application saw {:?}", o)));
        }
        if w.bad_at.is_none() && !closes.is_empty() {
            return Err(mk("C03.connection_closed_by_stream_reset", format!("h3 closed the connection with {:?} on a stream reset", closes)));
        }
        return Ok(());
    }
    let tn = tokname(w.bad_at);
    match &w.verdict {
        Verdict::Unexpected(stage) => {
            let v = |what: &str| mk("C03.invalid_sequence_not_rejected", format!("token #{:?} ({tn}) is not allowed in stage {:?}: expected connection error H3_FRAME_UNEXPECTED; {what}; observed {:?}; closes {:?}", w.bad_at, stage, o, closes)).fact("stage", stage_name(*stage)).fact("token", &tn);
            match stage {
                Stage::Headers => {
                    if o.resolve != Some(Err(conn_unexpected.clone())) {
                        return Err(v("header resolution did not fail with it"));
                    }
                }
                Stage::Body => {
                    if o.resolve != Some(Ok(())) {
                        return Err(mk("C03.valid_prefix_refused", format!("valid HEADERS not delivered: {:?}", o)).fact("stage", "headers"));
                    }
                    if !w.body.starts_with(&o.body) {
                        return Err(v("body bytes before the bad frame are wrong"));
                    }
                    let by_data = o.data_end == Some(Err(conn_unexpected.clone()));
                    let by_trailers = o.data_end == Some(Ok(())) && o.trailers == Some(Err(conn_unexpected.clone()));
                    if !by_data && !by_trailers {
                        return Err(v("neither recv_data nor recv_trailers failed with it"));
                    }
                }
                Stage::Trailers => {
                    if o.resolve != Some(Ok(())) || o.body != w.body || o.data_end != Some(Ok(())) {
                        return Err(mk("C03.valid_prefix_refused", format!("valid headers+body before the bad frame not delivered exactly: {:?} (expected body {} bytes)", o, w.body.len())).fact("stage", "body"));
                    }
                    if o.trailers != Some(Err(conn_unexpected.clone())) {
                        return Err(v("recv_trailers did not fail with it"));
                    }
                }
            }
            if net.effective_close() != Some((h3side, 0x105)) {
                return Err(v("connection not closed with H3_FRAME_UNEXPECTED"));
            }
            if o.driver != Some(Err(COut::Local(0x105))) {
                return Err(mk("C03.driver_not_informed", format!("driver result {:?} after H3_FRAME_UNEXPECTED", o.driver)));
            }
            Ok(())
        }
        Verdict::Fin(stage) | Verdict::Open(stage) => {
            let fin = matches!(w.verdict, Verdict::Fin(_));
            let v = |rule: &str, what: &str| mk(rule, format!("{what}; sequence {:?} ending {:?}; observed {:?}; closes {:?}", seq, ending, o, closes)).fact("stage", stage_name(*stage)).fact("ending", if fin { "fin" } else { "open" });
            if !role_server && fin && *stage == Stage::Headers {
                // a response stream finished before any HEADERS: not specified by the property (scoping, DESIGN §7)
                return Ok(());
            }
            if !closes.is_empty() {
                return Err(v("C03.valid_sequence_closed_connection", "h3 closed the connection on a valid sequence"));
            }
            if let Some(Err(e)) = &o.driver {
                return Err(v("C03.valid_sequence_closed_connection", &format!("driver failed with {e}")));
            }
            match stage {
                Stage::Headers => {
                    if fin {
                        if role_server {
                            if o.resolve != Some(Err(SOut::Stream(0x10d))) {
                                return Err(v("C03.incomplete_request_not_refused", "request finished before HEADERS must be refused with H3_REQUEST_INCOMPLETE on the stream"));
                            }
                        }
                        // client: unconstrained
                    } else if o.resolve.is_some() {
                        return Err(v("C03.reported_before_headers", "something was reported although no HEADERS frame has arrived and the stream is open"));
                    }
                }
                Stage::Body | Stage::Trailers => {
                    if o.resolve != Some(Ok(())) {
                        return Err(v("C03.valid_message_refused", "HEADERS not delivered"));
                    }
                    if o.body != w.body {
                        let rule = if w.body.starts_with(&o.body) { "C03.body_incomplete" } else { "C03.body_wrong_bytes" };
                        return Err(v(rule, &format!("body: got {} bytes, expected {}", o.body.len(), w.body.len())));
                    }
                    let trailers_stage = *stage == Stage::Trailers;
                    if fin {
                        if o.data_end != Some(Ok(())) {
                            return Err(v("C03.end_of_body_wrong", "recv_data did not end with None"));
                        }
                        let exp = if trailers_stage { Some(Ok(Some(trailer_fields()))) } else { Some(Ok(None)) };
                        // trailers above the endpoint's own limit are refused on that message only (C10); the sequence
                        // rules around them stay in force
                        let too_big = trailers_stage && big_trailers() && matches!(o.trailers, Some(Err(SOut::HeaderTooBig(_, _))));
                        if o.trailers != exp && !too_big {
                            return Err(v("C03.trailers_wrong", &format!("recv_trailers: expected {:?}", exp)));
                        }
                    } else if trailers_stage {
                        if o.data_end != Some(Ok(())) {
                            return Err(v("C03.end_of_body_wrong", "trailers arrived: recv_data must have returned None"));
                        }
                        // recv_trailers may wait for the end of the stream, or hand the trailers out
                        match &o.trailers {
                            None => {}
                            Some(Ok(Some(t))) if *t == trailer_fields() => {}
                            Some(Err(SOut::HeaderTooBig(_, _))) if big_trailers() => {}
                            x => return Err(v("C03.trailers_wrong", &format!("recv_trailers on an open stream: {:?}", x))),
                        }
                    } else {
                        // body still open: end-of-body must not have been reported
                        if o.data_end.is_some() {
                            return Err(v("C03.end_of_body_reported_early", "end of body reported although the stream is open and no trailers arrived"));
                        }
                    }
                }
            }
            Ok(())
        }
    }
}

impl Check for C03 {
    fn id(&self) -> &'static str {
        "C03"
    }
    fn meta(&self) -> Meta {
        Meta {
            level: "exploration",
            rule: "frame sequences (valid sequence + at most one inserted/replaced/removed token, over HEADERS, DATA(0), DATA(n), unknown(0/n), CANCEL_PUSH, SETTINGS, GOAWAY, MAX_PUSH_ID, PUSH_PROMISE (server), HTTP/2 types) x ending {FIN, RESET(code) at a drawn byte offset, open - also pausing in the middle of the last DATA payload} x role {server, client} x (one run in five) an endpoint limit of 300 bytes with trailers above it x the stream read whole or split() after 1-3 recv_data calls x drawn chunking, FIN timing, task order and spurious polls; non-trivial = the request stream carried at least one complete frame and at least 2 chunk deliveries or a RESET happened; distinct = distinct schedule signatures",
            real: &["h3::server::Connection/RequestResolver/RequestStream", "h3::client::Connection/SendRequest/RequestStream", "h3::connection::RequestStream", "h3::frame::FrameStream", "h3::qpack stateless codec", "h3 shared state / error propagation"],
            stub: &["QUIC transport (SimQuic)", "executor (simexec)", "peer (script of raw stream actions built with the reference codecs)", "application (follows the documented call pattern)"],
            assumptions: &["frame payloads in the sequences are well-formed, so exactly one RFC rule applies", "client receiving FIN or PUSH_PROMISE before/in a response is left unconstrained (the property speaks of servers)", "under RESET only prefix-consistency is demanded"],
            quick_runs: 1_000_000,
            thorough_runs: 40_000_000,
        }
    }
    fn run(&self, ctx: &RunCtx) -> RunOut {
        let role_server = draw(2) == 0;
        // one run in five: the endpoint has a small field-section limit of its own and the trailers exceed it; what
        // may and may not follow the trailers does not depend on that
        BIG_TRAILERS.with(|b| b.set(draw(5) == 4));
        if big_trailers() {
            obs::count("probe.trailers_above_the_endpoints_limit");
        }
        let max_len = if ctx.tier == Tier::Thorough { 9 } else { 6 };
        let seq = gen_seq(max_len, role_server);
        let all = encode_seq(&seq, role_server);
        let ending = match draw(5) {
            0 | 1 => Ending::Fin,
            2 => Ending::Open,
            _ => Ending::Reset(*pick(&[0x10c, 0x0, 0x100, 0x33]), draw_usize(all.len() + 1)),
        };
        let mut sent_len = match &ending {
            Ending::Reset(_, off) => *off,
            _ => all.len(),
        };
        let mut w = walk(&seq, ending == Ending::Fin);
        // a stream left open may pause in the middle of a DATA payload: one time in two, when the (valid) sequence
        // ends with a DATA frame of two or more bytes, the last 1..n-1 payload bytes are withheld - every payload
        // byte that did arrive must still reach the application while the stream stays open and quiet
        if let (Ending::Open, Verdict::Open(Stage::Body), Some(Tok::Data(n))) = (&ending, &w.verdict, seq.last()) {
            if *n >= 2 && draw(2) == 1 {
                let cut = 1 + draw_usize(*n - 1);
                sent_len -= cut;
                w.body.truncate(w.body.len() - cut);
                obs::count("probe.open_stream_pauses_inside_a_data_payload");
            }
        }
        let mut cfg = NetCfg::drawn();
        cfg.drop_send = 0; // what a dropped handle does to the stream is not this check's subject
        cfg.drop_recv_stops = false;
        let net = Net::new(cfg);
        let peer = if role_server { CLIENT } else { SERVER };
        {
            let mut n = net.lock().unwrap();
            if draw(4) != 3 {
                peer_control(&mut n, peer, &[]);
            }
            if role_server {
                n.raw_open(0);
            }
            n.raw_write(0, peer, &all[..sent_len]);
            match &ending {
                Ending::Fin => n.raw_fin(0, peer),
                Ending::Reset(c, _) => n.raw_reset(0, peer, *c),
                Ending::Open => {}
            }
        }
        let rec: Rc<RefCell<Obs>> = Default::default();
        let mut ex = Exec::new();
        ex.spurious = draw(3) == 1;
        // one run in four: the application splits the stream after 1-3 recv_data calls and goes on with the halves
        let split_after = if draw(4) == 3 { 1 + draw_usize(3) } else { 0 };
        if role_server {
            run_server(&net, &rec, &mut ex, split_after);
        } else {
            run_client(&net, &rec, &mut ex, split_after);
        }
        let stop = ex.run(&mut NetWorld(net.clone()));
        if let Some(p) = &ex.panic {
            if p.in_harness() {
                return RunOut { harness_error: Some(format!("harness panic: {} at {}", p.msg, p.loc)), ..Default::default() };
            }
            return RunOut::fail(Violation::new("C03.panic", format!("h3 panicked in task {}: {} at {}; sequence {:?} ending {:?}", p.task, p.msg, p.loc, seq, ending)).fact("at", p.loc.rsplit('/').next().unwrap_or("")));
        }
        if stop == Stop::StepCap {
            return RunOut::fail(Violation::new("C03.step_cap", format!("run did not become quiescent within {} steps; sequence {:?}", ex.max_steps, seq)));
        }
        let o = rec.borrow().clone();
        obs::note(|| format!("sequence {:?} ending {:?} role_server={role_server}", seq, ending));
        obs::note(|| format!("observed {:?}", o));
        let res = {
            let n = net.lock().unwrap();
            judge(&o, &w, &seq, &ending, role_server, &n, sent_len, all.len())
        };
        // probes
        if seq.iter().any(|t| *t == Tok::Data(0)) {
            obs::count("probe.data0_in_sequence");
        }
        match &w.verdict {
            Verdict::Unexpected(_) => obs::count("probe.invalid_sequence"),
            Verdict::Fin(Stage::Headers) => obs::count("probe.fin_before_headers"),
            Verdict::Fin(Stage::Trailers) => obs::count("probe.valid_with_trailers"),
            _ => {}
        }
        drop(ex);
        if let Err(v) = res {
            return RunOut::fail(v);
        }
        let nontrivial = sent_len > 0 && (obs::counter("net.chunk_delivered") >= 2 || obs::counter("net.reset_delivered") > 0);
        let mut out = RunOut::ok(nontrivial);
        if ctx.want_sample {
            out.sample = Some(json!({"role": if role_server {"server"} else {"client"}, "sequence": format!("{seq:?}"), "ending": format!("{ending:?}"), "reference": format!("{:?}", w.verdict), "observed": format!("{o:?}")}));
        }
        out
    }
}

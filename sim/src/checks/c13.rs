//! C13 — SETTINGS are sent, parsed and applied exactly, for every configuration.
use super::c04::read_settings;
use super::common::*;
use super::e2e::Gate;
use crate::choice::{chance, draw, draw_usize, pick};
use crate::exec::{self, Exec, Stop};
use crate::net::{self, Net, NetCfg, NetWorld, SimBuf, SimConn, CLIENT, SERVER};
use crate::obs;
use crate::refs::frames::{self, SettingsErr};
use crate::refs::varint;
use crate::runner::{Check, Meta, RunCtx, RunOut, Violation};
use serde_json::json;
use std::cell::RefCell;
use std::future::poll_fn;
use std::rc::Rc;

pub struct C13;

const SIZES: [u64; 11] = [0, 1, 63, 64, 16383, 16384, (1 << 30) - 1, 1 << 30, (1 << 62) - 1, 1 << 62, u64::MAX];
pub const N_CLIENT: u64 = 8 * 11;
pub const N_SERVER: u64 = 16 * 11 * 11;
pub const N_CONFIGS: u64 = N_CLIENT + N_SERVER;
const DEFAULT_MAX: u64 = (1 << 62) - 1;

#[derive(Clone, Debug)]
struct Cfg {
    server: bool,
    grease: bool,
    datagram: bool,
    ext_connect: bool,
    webtransport: bool,
    max_field: u64,
    max_sessions: u64,
}
fn config(mut i: u64) -> Cfg {
    if i < N_CLIENT {
        let grease = i % 2 == 1;
        i /= 2;
        let datagram = i % 2 == 1;
        i /= 2;
        let ext = i % 2 == 1;
        i /= 2;
        Cfg { server: false, grease, datagram, ext_connect: ext, webtransport: false, max_field: SIZES[(i % 11) as usize], max_sessions: 0 }
    } else {
        i -= N_CLIENT;
        let grease = i % 2 == 1;
        i /= 2;
        let datagram = i % 2 == 1;
        i /= 2;
        let ext = i % 2 == 1;
        i /= 2;
        let wt = i % 2 == 1;
        i /= 2;
        let mf = SIZES[(i % 11) as usize];
        i /= 11;
        Cfg { server: true, grease, datagram, ext_connect: ext, webtransport: wt, max_field: mf, max_sessions: SIZES[(i % 11) as usize] }
    }
}

fn panic_out(ex: &Exec, what: &str) -> Option<RunOut> {
    ex.panic.as_ref().map(|p| {
        if p.in_harness() {
            RunOut { harness_error: Some(format!("harness panic: {} at {}", p.msg, p.loc)), ..Default::default() }
        } else {
            RunOut::fail(Violation::new("C13.panic", format!("h3 panicked in task {}: {} at {} ({what})", p.task, p.msg, p.loc)).fact("at", p.loc.rsplit('/').next().unwrap_or("")).fact("dir", what.split(' ').next().unwrap_or("")))
        }
    })
}

fn run_send(ctx: &RunCtx) -> RunOut {
    let cfg = config(ctx.run % N_CONFIGS);
    let mut ncfg = NetCfg::drawn();
    ncfg.write_partial = true;
    let net = Net::new(ncfg);
    let side = if cfg.server { SERVER } else { CLIENT };
    if chance(1, 3) {
        net.lock().unwrap().sides[side as usize].uni_credit = Some(draw(3) as u64);
    }
    let res: Rc<RefCell<Option<Result<(), String>>>> = Default::default();
    let mut ex = Exec::new();
    ex.spurious = draw(3) == 1;
    let conn: SimConn = net::conn(&net, side);
    {
        let res = res.clone();
        let cfg = cfg.clone();
        ex.spawn("build", async move {
            if cfg.server {
                let mut b = h3::server::builder();
                b.send_grease(cfg.grease).enable_datagram(cfg.datagram).enable_extended_connect(cfg.ext_connect).enable_webtransport(cfg.webtransport).max_field_section_size(cfg.max_field).max_webtransport_sessions(cfg.max_sessions);
                match b.build::<_, SimBuf>(conn).await {
                    Ok(c) => {
                        *res.borrow_mut() = Some(Ok(()));
                        std::future::pending::<()>().await;
                        drop(c);
                    }
                    Err(e) => *res.borrow_mut() = Some(Err(e.to_string())),
                }
            } else {
                let mut b = h3::client::builder();
                b.send_grease(cfg.grease).enable_datagram(cfg.datagram).enable_extended_connect(cfg.ext_connect).max_field_section_size(cfg.max_field);
                match b.build::<_, _, SimBuf>(conn).await {
                    Ok(c) => {
                        *res.borrow_mut() = Some(Ok(()));
                        std::future::pending::<()>().await;
                        drop(c);
                    }
                    Err(e) => *res.borrow_mut() = Some(Err(e.to_string())),
                }
            }
        });
    }
    let stop = ex.run(&mut NetWorld(net.clone()));
    if let Some(r) = panic_out(&ex, &format!("send config {cfg:?}")) {
        let unrepresentable = cfg.max_field > DEFAULT_MAX || cfg.max_sessions > DEFAULT_MAX;
        return r.map_fact("config", if unrepresentable { "value_above_varint_range" } else { "representable" });
    }
    if stop == Stop::StepCap {
        return RunOut::fail(Violation::new("C13.step_cap", "no quiescence".to_string()));
    }
    let mk = |rule: &str, d: String| RunOut::fail(Violation::new(rule, format!("{d}; configuration {cfg:?}")).fact("dir", "send").fact("role", if cfg.server { "server" } else { "client" }));
    let built = res.borrow().clone();
    let n = net.lock().unwrap();
    let unrepresentable = cfg.max_field > DEFAULT_MAX || cfg.max_sessions > DEFAULT_MAX;
    match built {
        None => return mk("C13.setup_never_completed", "build() did not complete although all writes were eventually accepted".into()),
        Some(Err(e)) => {
            if unrepresentable {
                obs::count("probe.unrepresentable_value_refused");
                return RunOut::ok(true); // refusing an unrepresentable value with an error is admissible
            }
            return mk("C13.setup_failed", e);
        }
        Some(Ok(())) => {}
    }
    // the peer's view: parse the control stream with the reference parser
    let mut control = None;
    for id in n.streams_of(side) {
        if net::is_uni(id) && net::initiator(id) == side {
            let b = n.sent(id, side);
            if let Some((frames::ST_CONTROL, tn)) = varint::decode(b) {
                control = Some(b[tn..].to_vec());
            }
        }
    }
    let Some(cb) = control else { return mk("C13.no_control_stream", "no control stream was opened".into()) };
    let (fr, tail) = frames::segment(&cb);
    if tail != frames::Tail::Clean || fr.is_empty() {
        return mk("C13.settings_frame_incomplete", format!("control stream bytes do not form complete frames: {:?}", tail));
    }
    if fr[0].ty != frames::SETTINGS {
        return mk("C13.first_frame_not_settings", format!("first control frame has type {:#x}", fr[0].ty));
    }
    if fr.iter().filter(|f| f.ty == frames::SETTINGS).count() != 1 {
        return mk("C13.settings_count", "not exactly one SETTINGS frame".into());
    }
    let entries = match frames::parse_settings(&fr[0].payload) {
        Ok(e) => e,
        Err(SettingsErr::Truncated) => return mk("C13.settings_malformed", "SETTINGS payload is truncated".into()),
        Err(SettingsErr::DuplicateKnown(i)) => return mk("C13.settings_duplicate", format!("identifier {i:#x} listed twice")),
        Err(SettingsErr::H2Reserved(i)) => return mk("C13.settings_h2_reserved", format!("HTTP/2-reserved identifier {i:#x} sent")),
    };
    for (k, (id, _)) in entries.iter().enumerate() {
        if entries[..k].iter().any(|(o, _)| o == id) {
            return mk("C13.settings_duplicate", format!("identifier {id:#x} listed twice"));
        }
        if !frames::is_known_setting(*id) && !frames::is_reserved(*id) {
            return mk("C13.settings_unknown_id", format!("identifier {id:#x} is neither defined nor of the reserved form"));
        }
    }
    let get = |id: u64, default: u64| entries.iter().find(|(k, _)| *k == id).map(|(_, v)| *v).unwrap_or(default);
    let clamp = |v: u64| v.min(DEFAULT_MAX);
    let expect = [(frames::SET_MAX_FIELD_SECTION, clamp(cfg.max_field), DEFAULT_MAX), (frames::SET_CONNECT_PROTOCOL, cfg.ext_connect as u64, 0), (frames::SET_H3_DATAGRAM, cfg.datagram as u64, 0), (frames::SET_ENABLE_WT, cfg.webtransport as u64, 0), (frames::SET_WT_MAX_SESSIONS, clamp(cfg.max_sessions), 0)];
    for (id, want, default) in expect {
        let got = get(id, default);
        if got != want {
            return mk("C13.setting_value_wrong", format!("setting {id:#x}: peer sees {got}, configured {want}")).map_fact("setting", &format!("{id:#x}"));
        }
    }
    if cfg.grease != entries.iter().any(|(id, _)| frames::is_reserved(*id)) {
        // grease is optional behaviour; only its form is checked above
    }
    if unrepresentable {
        obs::count("probe.unrepresentable_value_clamped");
    }
    let mut out = RunOut::ok(true);
    if ctx.want_sample {
        out.sample = Some(json!({"direction": "send", "configuration": format!("{cfg:?}"), "settings_seen_by_peer": entries}));
    }
    out
}

trait MapFact {
    fn map_fact(self, k: &str, v: &str) -> Self;
}
impl MapFact for RunOut {
    fn map_fact(mut self, k: &str, v: &str) -> Self {
        if let Some(x) = self.violation.take() {
            self.violation = Some(x.fact(k, v));
        }
        self
    }
}

fn run_receive(ctx: &RunCtx) -> RunOut {
    let role_server = draw(2) == 0;
    // payload: entries with drawn ids/values/forms; then at most one deviation
    let mut ids = vec![frames::SET_MAX_FIELD_SECTION, frames::SET_CONNECT_PROTOCOL, frames::SET_H3_DATAGRAM, frames::SET_ENABLE_WT, frames::SET_WT_MAX_SESSIONS, frames::SET_QPACK_MAX_TABLE, frames::SET_QPACK_BLOCKED, 0x21, 0x21 + 0x1f * 9, 0x0f0f, 0x3fff_ffff_ffff_ffff];
    let n = draw_usize(7);
    let mut entries: Vec<(u64, u64)> = vec![];
    for _ in 0..n {
        let id = ids.remove(draw_usize(ids.len()));
        let v = match id {
            frames::SET_CONNECT_PROTOCOL | frames::SET_H3_DATAGRAM | frames::SET_ENABLE_WT => *pick(&[1u64, 0, 2]),
            _ => *pick(&[0u64, 1, 63, 64, 16383, 16384, 1 << 30, DEFAULT_MAX]),
        };
        entries.push((id, v));
    }
    // one run in six: a long frame - 8 to 80 further entries with distinct unknown, extension or grease identifiers
    // at drawn positions (RFC 9114 7.2.4.1 puts no bound on how many settings a peer may send; they are ignored one
    // by one, and the known ones among them still take effect)
    if draw(6) == 5 {
        let extra = 8 + draw_usize(73);
        let base = 0x4000 + draw(1000) as u64 * 131;
        for k in 0..extra as u64 {
            let id = if draw(3) == 0 { 0x21 + 0x1f * (1000 + base + k) } else { base + 37 * k + 10 };
            let v = *pick(&[0u64, 1, 64, 16384, 1 << 30, DEFAULT_MAX]);
            let pos = draw_usize(entries.len() + 1);
            entries.insert(pos, (id, v));
        }
        obs::count("probe.settings_frame_with_many_unknown_entries");
    }
    #[derive(Debug, PartialEq, Clone)]
    enum Dev {
        None,
        DupKnown,
        DupUnknown,
        H2Reserved,
        Truncated,
    }
    let dev = match draw(6) {
        0 | 1 => Dev::None,
        2 => Dev::DupKnown,
        3 => Dev::DupUnknown,
        4 => Dev::H2Reserved,
        _ => Dev::Truncated,
    };
    let mut dev = dev;
    match dev {
        Dev::DupKnown => match entries.iter().find(|(id, _)| frames::is_known_setting(*id)).cloned() {
            Some(e) => {
                let pos = draw_usize(entries.len() + 1);
                entries.insert(pos, (e.0, *pick(&[e.1, 5])));
            }
            None => dev = Dev::None,
        },
        Dev::DupUnknown => match entries.iter().find(|(id, _)| !frames::is_known_setting(*id)).cloned() {
            Some(e) => entries.push(e),
            None => dev = Dev::None,
        },
        Dev::H2Reserved => {
            let pos = draw_usize(entries.len() + 1);
            entries.insert(pos, (*pick(&frames::SET_H2_RESERVED), 1));
        }
        _ => {}
    }
    let mut payload = settings_bytes(&entries);
    if dev == Dev::Truncated {
        if payload.is_empty() {
            payload = vec![0x40];
        } else {
            // cut inside the last entry
            let last = settings_bytes(&entries[entries.len() - 1..]).len();
            let cut = 1 + draw_usize(last.min(payload.len()) - 1).min(last - 1);
            payload.truncate(payload.len() - cut);
            // make sure the remainder really is a truncated entry list
            if frames::parse_settings(&payload) != Err(SettingsErr::Truncated) {
                dev = Dev::None;
                entries.pop();
                payload = settings_bytes(&entries);
            }
        }
    }
    let refparse = frames::parse_settings(&payload);
    let delay = *pick(&[0u32, 5, 30]);
    let mut cfg = NetCfg::drawn();
    // client role, one run in two: a request is in flight while the SETTINGS travel - send_request() is called
    // at once and has to wait for stream credit, which the peer grants only after everything has been delivered
    // and applied. The limit the peer advertised must be in effect for it (behaviour, not just the accessor).
    let inflight = !role_server && draw(2) == 1;
    let advertised = entries.iter().find(|(id, _)| *id == frames::SET_MAX_FIELD_SECTION).map(|e| e.1).unwrap_or(DEFAULT_MAX);
    let pseudo_size: u64 = [(":method", "GET"), (":scheme", "https"), (":authority", "example.com"), (":path", "/c13")].iter().map(|(n, v)| (n.len() + v.len() + 32) as u64).sum();
    let pad_len: usize = if inflight {
        let base = pseudo_size + 32 + 5;
        let target = if (300..=20000).contains(&advertised) { advertised + draw(2) as u64 } else { 300 };
        (target - base) as usize
    } else {
        0
    };
    let inflight_size = pseudo_size + 32 + 5 + pad_len as u64;
    if inflight {
        cfg.auto_grant = false;
    }
    let net = Net::new(cfg);
    if inflight {
        net.lock().unwrap().sides[CLIENT as usize].bi_credit = Some(0);
    }
    let peer = if role_server { CLIENT } else { SERVER };
    let h3side = 1 - peer;
    #[derive(Default, Debug, Clone)]
    struct Rec {
        early: Vec<(u64, u64)>,
        late: Vec<(u64, u64)>,
        driver: Option<COut>,
        build_err: Option<String>,
        inflight: Option<Result<(), SOut>>,
        at_accept: Option<Vec<(u64, u64)>>,
    }
    // server role, one run in two: the client also sends a request, some turns after its SETTINGS. If the SETTINGS
    // frame had been delivered completely before the request was even written, the settings must be in effect
    // when accept() hands that request out (accept() reads the control stream before it looks for requests).
    let with_request = role_server && draw(2) == 1;
    let request_gap = draw(8);
    let settings_first = Rc::new(std::cell::Cell::new(false));
    let ahead = if draw(4) == 3 { 1 + draw(2) } else { 0 };
    let rec: Rc<RefCell<Rec>> = Default::default();
    let gate = Rc::new(Gate::default());
    let written = Rc::new(std::cell::Cell::new(false));
    let mut ex = Exec::new();
    ex.spurious = draw(3) == 1;
    {
        let net = net.clone();
        let payload = payload.clone();
        let written = written.clone();
        let settings_first2 = settings_first.clone();
        ex.spawn("peer", async move {
            for _ in 0..delay {
                exec::yield_now().await;
            }
            let mut n = net.lock().unwrap();
            // one run in four: other uni streams are opened ahead of the control stream - one left idle (no byte,
            // legal per RFC 9114 6.2, surfaced by an in-order transport together with the control stream) or a
            // grease stream - the SETTINGS behind them must be applied all the same
            match ahead {
                1 => {
                    n.raw_open_next(peer, true);
                    obs::count("probe.idle_uni_stream_ahead_of_control");
                }
                2 => {
                    let g = n.raw_open_next(peer, true);
                    n.raw_write(g, peer, &varint::encode(0x21 + 0x1f * 5));
                }
                _ => {}
            }
            let id = n.raw_open_next(peer, true);
            let mut b = varint_any_form(frames::ST_CONTROL);
            b.extend(frame_forms(frames::SETTINGS, &payload));
            written.set(true);
            n.raw_write(id, peer, &b);
            if with_request {
                drop(n);
                for _ in 0..request_gap {
                    exec::yield_now().await;
                }
                let mut n = net.lock().unwrap();
                let d = n.dir_ref(id, peer).unwrap();
                settings_first2.set(d.delivered == d.sent.len());
                n.raw_open(0);
                n.raw_write(0, CLIENT, &super::peer::headers_frame(&super::peer::request_fields("GET", "/c13")));
                n.raw_fin(0, CLIENT);
            }
        });
    }
    let conn: SimConn = net::conn(&net, h3side);
    {
        let rec = rec.clone();
        let gate = gate.clone();
        let written = written.clone();
        if role_server {
            ex.spawn("server", async move {
                let mut b = h3::server::builder();
                b.send_grease(draw(2) == 1);
                let mut c = match b.build::<_, SimBuf>(conn).await {
                    Ok(c) => c,
                    Err(e) => {
                        rec.borrow_mut().build_err = Some(e.to_string());
                        return;
                    }
                };
                if !written.get() {
                    rec.borrow_mut().early = read_settings(&c);
                }
                let mut kept = vec![];
                loop {
                    match super::e2e::accept_or_gate(&mut c, Some(&gate)).await {
                        super::e2e::Accepted::Err(e) => {
                            rec.borrow_mut().driver = Some(cout(&e));
                            break;
                        }
                        super::e2e::Accepted::Request(resolver) => {
                            // what the application sees when it is handed the request
                            rec.borrow_mut().at_accept = Some(read_settings(&resolver));
                            kept.push(resolver);
                        }
                        _ => break,
                    }
                }
                rec.borrow_mut().late = read_settings(&c);
                drop(kept);
            });
        } else {
            ex.spawn("client", async move {
                let mut b = h3::client::builder();
                b.send_grease(draw(2) == 1);
                let (mut driver, sr) = match b.build::<_, _, SimBuf>(conn).await {
                    Ok(x) => x,
                    Err(e) => {
                        rec.borrow_mut().build_err = Some(e.to_string());
                        return;
                    }
                };
                if !written.get() {
                    rec.borrow_mut().early = read_settings(&driver);
                }
                if inflight {
                    let mut sr2 = sr.clone();
                    let rec = rec.clone();
                    exec::spawn("inflight", async move {
                        let req = http::Request::builder().method("GET").uri("https://example.com/c13").header("x-pad", "p".repeat(pad_len)).body(()).unwrap();
                        let r = sr2.send_request(req).await;
                        rec.borrow_mut().inflight = Some(r.as_ref().map(|_| ()).map_err(sout));
                        // the stream and the handle stay alive to the end of the run
                        std::future::pending::<()>().await;
                        drop((r, sr2));
                    });
                }
                let r = poll_fn(|cx| {
                    if let std::task::Poll::Ready(e) = driver.poll_close(cx) {
                        return std::task::Poll::Ready(Some(e));
                    }
                    if gate.is_open() {
                        return std::task::Poll::Ready(None);
                    }
                    gate.register(cx);
                    std::task::Poll::Pending
                })
                .await;
                if let Some(e) = r {
                    rec.borrow_mut().driver = Some(cout(&e));
                }
                rec.borrow_mut().late = read_settings(&driver);
                drop(sr);
            });
        }
    }
    let stop = ex.run(&mut NetWorld(net.clone()));
    if let Some(r) = panic_out(&ex, "receive") {
        return r;
    }
    if stop == Stop::StepCap {
        return RunOut::fail(Violation::new("C13.step_cap", "no quiescence".to_string()));
    }
    let close = net.lock().unwrap().closes_by(h3side).first().copied();
    if inflight {
        // everything the peer wrote has been delivered and processed: now it grants the stream credit
        net.lock().unwrap().grant(CLIENT, false, 1);
        ex.run(&mut NetWorld(net.clone()));
        if let Some(r) = panic_out(&ex, "receive") {
            return r;
        }
    }
    gate.open();
    ex.run(&mut NetWorld(net.clone()));
    if let Some(r) = panic_out(&ex, "receive") {
        return r;
    }
    let o = rec.borrow().clone();
    let role = if role_server { "server" } else { "client" };
    let mk = |rule: &str, d: String| RunOut::fail(Violation::new(rule, format!("{d}; SETTINGS entries sent {:?} (deviation {:?}); observed {:?} close {:?}", entries, dev, o, close.map(code_name))).fact("dir", "receive").fact("role", role));
    obs::note(|| format!("receive role={role} entries {:?} dev {:?} ref {:?} observed {:?}", entries, dev, refparse, o));
    if let Some(e) = &o.build_err {
        return mk("C13.setup_failed", e.clone());
    }
    let defaults = vec![(frames::SET_MAX_FIELD_SECTION, DEFAULT_MAX), (frames::SET_CONNECT_PROTOCOL, 0), (frames::SET_H3_DATAGRAM, 0), (frames::SET_ENABLE_WT, 0), (frames::SET_WT_MAX_SESSIONS, 0)];
    if !o.early.is_empty() && o.early != defaults {
        return mk("C13.defaults_not_in_force_before_settings", format!("before the peer's SETTINGS were written the applied settings were {:?}", o.early));
    }
    match (&refparse, &dev) {
        (Err(SettingsErr::Truncated), _) => {
            if o.driver.is_none() || close.is_none() {
                return mk("C13.truncated_settings_accepted", "a truncated SETTINGS entry must be a connection error".into());
            }
        }
        (Err(SettingsErr::DuplicateKnown(_)), _) | (Err(SettingsErr::H2Reserved(_)), _) => {
            if o.driver != Some(COut::Local(0x109)) || close != Some(0x109) {
                return mk("C13.invalid_settings_not_settings_error", format!("expected H3_SETTINGS_ERROR, driver {:?}", o.driver)).map_fact("deviation", &format!("{dev:?}"));
            }
        }
        (Ok(all), Dev::DupUnknown) => {
            // rejecting a repeated unknown identifier is optional: either applied exactly or H3_SETTINGS_ERROR
            if o.driver.is_some() {
                if o.driver != Some(COut::Local(0x109)) {
                    return mk("C13.wrong_error_for_repeated_unknown", format!("driver {:?}", o.driver));
                }
            } else if let Some(v) = applied_mismatch(all, &o.late, &defaults) {
                return mk("C13.setting_not_applied_exactly", v);
            }
        }
        (Ok(all), _) => {
            if let Some(d) = &o.driver {
                return mk("C13.valid_settings_rejected", format!("driver failed with {d}"));
            }
            if let Some(v) = applied_mismatch(all, &o.late, &defaults) {
                return mk("C13.setting_not_applied_exactly", v);
            }
            if with_request && settings_first.get() {
                obs::count("probe.request_written_after_settings_were_delivered");
                match &o.at_accept {
                    None => return mk("C13.request_not_handed_out", "the request written after the SETTINGS was never handed out by accept()".into()),
                    Some(seen) => {
                        if let Some(v) = applied_mismatch(all, seen, &defaults) {
                            return mk("C13.settings_delivered_before_the_request_not_in_effect_at_accept", format!("the SETTINGS frame had been delivered completely before the request was written, yet when accept() handed the request out: {v}"));
                        }
                    }
                }
            }
            if inflight {
                obs::count("probe.request_in_flight_while_settings_arrive");
                let want_refused = inflight_size > advertised;
                match (&o.inflight, want_refused) {
                    (Some(Err(SOut::HeaderTooBig(a, m))), true) if *a == inflight_size && *m == advertised => {}
                    (Some(Ok(())), false) => {}
                    (got, _) => {
                        return mk("C13.setting_not_in_effect_for_request_in_flight", format!("a request with a field section of size {inflight_size} was waiting for stream credit while SETTINGS_MAX_FIELD_SECTION_SIZE = {advertised} arrived and was applied; when the credit came it must be {}; send_request returned {:?}", if want_refused { "refused as too big" } else { "sent" }, got)).map_fact("expected", if want_refused { "refused" } else { "sent" });
                    }
                }
            }
        }
    }
    obs::count(match dev {
        Dev::None => "probe.receive_valid",
        Dev::DupKnown => "probe.receive_duplicate_known",
        Dev::DupUnknown => "probe.receive_duplicate_unknown",
        Dev::H2Reserved => "probe.receive_h2_reserved",
        Dev::Truncated => "probe.receive_truncated",
    });
    if !o.early.is_empty() {
        obs::count("probe.defaults_sampled_before_settings");
    }
    let mut out = RunOut::ok(true);
    if ctx.want_sample {
        out.sample = Some(json!({"direction": "receive", "role": role, "entries": entries, "deviation": format!("{dev:?}"), "applied": o.late, "driver": format!("{:?}", o.driver)}));
    }
    out
}

fn applied_mismatch(all: &[(u64, u64)], applied: &[(u64, u64)], defaults: &[(u64, u64)]) -> Option<String> {
    for (id, def) in defaults {
        let sent = all.iter().find(|(k, _)| k == id).map(|(_, v)| *v);
        let want = match (*id, sent) {
            (_, None) => *def,
            (frames::SET_CONNECT_PROTOCOL | frames::SET_H3_DATAGRAM | frames::SET_ENABLE_WT, Some(v)) => (v != 0) as u64,
            (_, Some(v)) => v,
        };
        let got = applied.iter().find(|(k, _)| k == id).map(|(_, v)| *v);
        if got != Some(want) {
            return Some(format!("setting {id:#x}: peer sent {sent:?}, applied {got:?}, expected {want}"));
        }
    }
    None
}

impl Check for C13 {
    fn id(&self) -> &'static str {
        "C13"
    }
    fn meta(&self) -> Meta {
        Meta {
            level: "exploration",
            rule: "send: the full product of builder options in systematic order (client: 3 booleans x 11 sizes; server: 4 booleans x 11 x 11 sizes; sizes {0,1,63,64,16383,16384,2^30-1,2^30,2^62-1,2^62,u64::MAX}; 2024 configurations, run index mod 2024) each set up over SimQuic with a drawn write schedule (partial acceptance down to 1 byte, pends, scarce stream credit) and parsed by the reference SETTINGS parser; receive: SETTINGS payloads (0-6 entries over known, unknown, grease and maximal ids, boolean and boundary values, all varint forms, in drawn order, in one run in six with 8-80 further distinct unknown / grease entries at drawn positions - frames of up to about 1 KiB -, with at most one deviation: repeated known id, repeated unknown id, HTTP/2-reserved id, truncated entry) delivered under drawn chunkings after a drawn delay to both roles, in one run in four behind an idle or a grease unidirectional stream opened first; applied values read back through the settings accessors before (defaults) and after; server role, one run in two: the client also sends a request some turns after its SETTINGS, and if the SETTINGS frame had been delivered completely before the request was written the settings must be in effect when accept() hands the request out; client role, one run in two: a request whose field-section size is at or one above the advertised SETTINGS_MAX_FIELD_SECTION_SIZE (or above a tiny one) is in flight - send_request() waiting for stream credit - while the SETTINGS arrive, and must be refused or sent according to the advertised value once the credit comes; non-trivial = every run; distinct = distinct schedule signatures",
            real: &["h3 client/server builders, Config -> SETTINGS conversion and encoding, control stream setup", "SETTINGS decoding, validation and application (frame::Settings::decode, config::Settings::from, shared state)"],
            stub: &["QUIC transport (SimQuic)", "executor (simexec)", "peer (script, reference SETTINGS printer/parser)"],
            assumptions: &["a configured value that a varint cannot carry may be sent as 2^62-1 or refused by build() with an error, but must not panic", "a repeated unknown identifier may be ignored or rejected with H3_SETTINGS_ERROR"],
            quick_runs: 2_000_000,
            thorough_runs: 80_000_000,
        }
    }
    fn run(&self, ctx: &RunCtx) -> RunOut {
        // the first N_CONFIGS runs sweep the configuration product once; afterwards both directions alternate
        if ctx.run < N_CONFIGS || ctx.run % 3 == 0 {
            run_send(ctx)
        } else {
            run_receive(ctx)
        }
    }
}

//! C20 — stateful QPACK encoder and decoder stay in agreement.
//! Two parties (the real Encoder and Decoder, reached through the verif-hooks re-export) and three
//! channels owned by the simulator: encoder stream E->D (ordered, late, chunked), field sections
//! (one per stream, unordered relative to the encoder stream), decoder stream D->E (ordered, late,
//! chunked). Judge: the RFC 9204 reference in refs::qpack_dyn fed exactly the same bytes.
use crate::choice::{chance, draw_usize, pick};
use crate::exec;
use crate::obs;
use crate::refs::qpack::Field;
use crate::refs::qpack_dyn::{self as rq, DecInstr, RefErr, Table};
use crate::runner::{Check, Meta, RunCtx, RunOut, Violation};
use h3::qpack::verif::{ack_header, set_dynamic_table_size, stream_canceled, Decoder, DynamicTable, Encoder};
use h3::qpack::{DecoderError, HeaderField};
use serde_json::json;
use std::io::Cursor;

pub struct C20;

const NAMES: [&str; 8] = ["x-a", "x-b", "cookie", "accept", ":path", "x-long-header-name-for-eviction", "content-type", "x-c"];
const VALUES: [&str; 8] = ["1", "2", "", "/index.html", "a=b; c=d", "some-longer-value-to-fill-the-table-quickly-0123456789", "text/plain", "*/*"];

struct Section {
    stream: u64,
    bytes: Vec<u8>,
    fields: Vec<Field>,
    delivered: bool,
    done: bool,
    blocked_seen: bool,
    /// Required Insert Count according to the reference, learned when decoded
    ric: u64,
    cancelled: bool,
    /// its Section Acknowledgment has been counted by the reference's view of the encoder
    acked: bool,
}

fn to_hf(f: &[Field]) -> Vec<HeaderField> {
    f.iter().map(|(n, v)| HeaderField::new(n.clone(), v.clone())).collect()
}
fn from_hf(f: &[HeaderField]) -> Vec<Field> {
    f.iter().map(|h| (h.name.to_vec(), h.value.to_vec())).collect()
}
fn show(f: &[Field]) -> Vec<String> {
    f.iter().map(|(n, v)| format!("{}={}", String::from_utf8_lossy(n), String::from_utf8_lossy(v))).collect()
}

fn simulate(ctx: &RunCtx) -> Result<(serde_json::Value, bool), Violation> {
    let capacity = *pick(&[256usize, 0, 33, 36, 40, 64, 128, 1024, 4096, 100, 512]);
    let max_blocked = *pick(&[100usize, 0, 1, 2, 5]);
    let nsections = 1 + draw_usize(40);
    // capacity changes mid-run are a separate mode (one run in eight): the tables are otherwise configured
    // with the agreed capacity on both sides, as h3's own tests do
    let change_capacity = ctx.run % 8 == 7;
    let allow_cancel = chance(1, 6);
    let in_order = chance(1, 5); // everything delivered promptly and in order
    let mut table = DynamicTable::new();
    table.set_max_blocked(max_blocked).map_err(|e| Violation::new("HARNESS", format!("set_max_blocked: {e:?}")))?;
    table.set_max_size(capacity).map_err(|e| Violation::new("HARNESS", format!("set_max_size: {e:?}")))?;
    let enc_buf0: Vec<u8> = vec![];
    let mut enc = Encoder::verif_from_table(table);
    let mut dtable = DynamicTable::new();
    dtable.set_max_size(capacity).map_err(|e| Violation::new("HARNESS", format!("set_max_size: {e:?}")))?;
    let mut dec = Decoder::verif_from_table(dtable);
    // channels
    let mut enc_tx: Vec<u8> = enc_buf0; // encoder stream, all bytes emitted
    let mut enc_delivered = 0usize;
    let mut dec_pending: Vec<u8> = vec![]; // delivered to the real decoder but not yet consumed
    let mut ref_pending: Vec<u8> = vec![];
    let mut dec_tx: Vec<u8> = vec![]; // decoder stream
    let mut dec_delivered = 0usize;
    let mut enc_pending: Vec<u8> = vec![];
    let mut refd = Table::default(); // reference decoder-side table
    refd.set_capacity(capacity);
    let mut ref_log = vec![];
    // the reference's view of what the encoder knows (Known Received Count), for the blocked-stream limit
    let mut krc: u64 = 0;
    let mut ack_pending: Vec<u64> = vec![];
    let mut sections: Vec<Section> = vec![];
    let mut encoded = 0usize;
    let mut next_stream = 0u64;
    // streams the decoder side has cancelled: nothing more is sent on them
    let mut cancelled_streams: std::collections::BTreeSet<u64> = Default::default();
    let mut cur_capacity = capacity;
    let mut max_capacity_seen = capacity;
    let mut steps = 0u32;
    // a violation that is recorded but does not end the run (so that a frequent one cannot starve the rest)
    let mut deferred: Option<Violation> = None;
    let mut deferred_unacked: Option<Violation> = None;
    // set once the encoder has evicted an entry whose insertion the decoder had not acknowledged (RFC 9204
    // 2.1.1 forbids it: the wrap-around coding of the Required Insert Count relies on it); every later
    // violation of the run carries it as a fact, because it may be a consequence
    let unacked = std::cell::Cell::new(false);
    // set once a section with a non-zero Required Insert Count was encoded or presented for decoding while
    // the current capacity gives another MaxEntries than the maximum capacity (known finding: h3 uses the
    // current capacity in the RFC 9204 4.5.1.1 arithmetic); every later violation carries it as a fact
    let capdiff = std::cell::Cell::new(false);
    let mk = |rule: &str, d: String| Violation::new(rule, format!("{d} [capacity {capacity}, blocked limit {max_blocked}, capacity changes {change_capacity}]")).fact("after_unacked_eviction", if unacked.get() { "true" } else { "false" }).fact("maxentries_differed", if capdiff.get() { "true" } else { "false" }).fact("mode", if change_capacity { "capacity_change" } else { "fixed_capacity" }).fact("capacity_class", if capacity == 0 { "zero" } else if capacity < 64 { "one_entry" } else if capacity <= 512 { "small" } else { "large" });

    loop {
        steps += 1;
        if steps > 4000 {
            return Err(Violation::new("HARNESS", "C20 step cap".to_string()));
        }
        // enabled events
        let can_encode = encoded < nsections;
        let enc_avail = enc_tx.len() - enc_delivered;
        let dec_avail = dec_tx.len() - dec_delivered;
        // sections of one stream (header, then trailers) arrive in the order they were sent
        let undelivered: Vec<usize> = sections.iter().enumerate().filter(|(i, s)| !s.delivered && !s.cancelled && !sections[..*i].iter().any(|e| e.stream == s.stream && !e.delivered && !e.cancelled)).map(|(i, _)| i).collect();
        let mut evs: Vec<u8> = vec![];
        if can_encode {
            evs.push(0);
            if !in_order {
                evs.push(0);
            }
        }
        if enc_avail > 0 {
            evs.push(1);
        }
        if !undelivered.is_empty() {
            evs.push(2);
        }
        if dec_avail > 0 {
            evs.push(3);
        }
        if can_encode && change_capacity && chance(1, 10) {
            evs.push(4);
        }
        let blocked_now: Vec<usize> = sections.iter().enumerate().filter(|(_, s)| s.delivered && !s.done && !s.cancelled).map(|(i, _)| i).collect();
        if allow_cancel && !blocked_now.is_empty() && chance(1, 8) {
            evs.push(5);
        }
        if evs.is_empty() {
            break;
        }
        let ev = if in_order {
            // prompt, in-order: deliver everything outstanding before encoding more
            *evs.iter().find(|e| **e != 0).unwrap_or(&0)
        } else {
            evs[draw_usize(evs.len())]
        };
        match ev {
            0 => {
                // encode the next section
                let nf = 1 + draw_usize(5);
                let fields: Vec<Field> = (0..nf).map(|_| (NAMES[draw_usize(NAMES.len())].as_bytes().to_vec(), VALUES[draw_usize(VALUES.len())].as_bytes().to_vec())).collect();
                // one section in four is the second one (the trailers) of the stream that carried the previous section
                let stream = match sections.last() {
                    Some(l) if !cancelled_streams.contains(&l.stream) && sections.iter().filter(|x| x.stream == l.stream).count() == 1 && chance(1, 4) => {
                        obs::count("probe.second_section_on_a_stream");
                        l.stream
                    }
                    _ => {
                        next_stream += 4;
                        next_stream - 4
                    }
                };
                let mut block: Vec<u8> = vec![];
                let mut ebuf: Vec<u8> = vec![];
                let r = std::panic::catch_unwind(std::panic::AssertUnwindSafe(|| enc.encode(stream, &mut block, &mut ebuf, to_hf(&fields))));
                let r = match r {
                    Ok(r) => r,
                    Err(_) => {
                        let (msg, loc) = exec::take_last_panic().unwrap_or_default();
                        return Err(mk("C20.panic", format!("Encoder::encode panicked: {msg} at {loc}; fields {:?}", show(&fields))).fact("at", loc.rsplit('/').next().unwrap_or("")));
                    }
                };
                if let Err(e) = r {
                    return Err(mk("C20.encoder_failed", format!("Encoder::encode failed with {e:?} for {:?}", show(&fields))));
                }
                obs::ev("encode", stream, ebuf.len() as u64);
                enc_tx.extend_from_slice(&ebuf);
                if block.first().copied().unwrap_or(0) != 0 && cur_capacity / 32 != capacity / 32 {
                    capdiff.set(true);
                }
                sections.push(Section { stream, bytes: block, fields, delivered: false, done: false, blocked_seen: false, ric: 0, cancelled: false, acked: false });
                encoded += 1;
                // blocked-stream limit as the reference sees it: sections whose Required Insert Count exceeds
                // what the encoder knows the decoder has received
                let (t_enc_view_inserted, t_enc_view_evicted) = {
                    // number of insertions the encoder has made = insert instructions in enc_tx so far
                    let mut t = Table::default();
                    t.set_capacity(capacity);
                    let mut l = vec![];
                    let _ = rq::apply_encoder_stream(&mut t, &enc_tx, &mut l);
                    (t.inserted, t.evicted)
                };
                if t_enc_view_evicted > krc && !unacked.get() {
                    unacked.set(true);
                    obs::count("probe.encoder_evicted_unacknowledged_entry");
                    deferred_unacked = Some(mk("C20.encoder_evicted_unacknowledged_entry", format!("while encoding stream {stream} the encoder had evicted {t_enc_view_evicted} entries although the decoder stream it has received acknowledges only {krc} insertions (RFC 9204 2.1.1: an entry is evictable only once its insertion has been acknowledged)")));
                }
                let s = sections.last_mut().unwrap();
                if let Ok((ric, _, _)) = rq::section_prefix(&s.bytes, max_capacity_seen.max(1), t_enc_view_inserted) {
                    s.ric = ric;
                }
                let at_risk: std::collections::BTreeSet<u64> = sections.iter().filter(|x| !x.cancelled && x.ric > krc && !ack_pending_done(&ack_pending, x.stream, x.done)).map(|x| x.stream).collect();
                if at_risk.len() > max_blocked && deferred.is_none() {
                    let newest = sections.last().unwrap();
                    deferred = Some(mk("C20.blocked_limit_exceeded", format!("{} streams ({:?}) have sections whose Required Insert Count exceeds the Known Received Count {krc}; the limit given to the encoder is {max_blocked}; the newest section (stream {}, fields {:?}) has Required Insert Count {}", at_risk.len(), at_risk, newest.stream, show(&newest.fields), newest.ric)));
                }
            }
            1 => {
                // deliver part of the encoder stream
                let k = if in_order { enc_avail } else { 1 + draw_usize(enc_avail) };
                let chunk = enc_tx[enc_delivered..enc_delivered + k].to_vec();
                enc_delivered += k;
                obs::ev("deliver_encoder_stream", 2, k as u64);
                obs::count("net.encoder_stream_chunk");
                dec_pending.extend_from_slice(&chunk);
                ref_pending.extend_from_slice(&chunk);
                let mut out: Vec<u8> = vec![];
                let mut cur = Cursor::new(&dec_pending[..]);
                let r = std::panic::catch_unwind(std::panic::AssertUnwindSafe(|| dec.on_encoder_recv(&mut cur, &mut out)));
                let consumed = cur.position() as usize;
                match r {
                    Err(_) => {
                        let (msg, loc) = exec::take_last_panic().unwrap_or_default();
                        return Err(mk("C20.panic", format!("Decoder::on_encoder_recv panicked: {msg} at {loc}")).fact("at", loc.rsplit('/').next().unwrap_or("")));
                    }
                    Ok(Err(e)) => {
                        // what does the reference say about the same bytes?
                        let refr = rq::apply_encoder_stream(&mut refd.clone(), &ref_pending, &mut vec![]);
                        return Err(mk("C20.decoder_rejects_encoder_stream", format!("Decoder::on_encoder_recv failed with {e:?}; the reference says {:?} for the same bytes", refr)));
                    }
                    Ok(Ok(_)) => {}
                }
                dec_pending.drain(..consumed);
                dec_tx.extend_from_slice(&out);
                match rq::apply_encoder_stream(&mut refd, &ref_pending, &mut ref_log) {
                    Ok(n) => {
                        ref_pending.drain(..n);
                    }
                    Err(e) => return Err(mk("C20.encoder_stream_invalid", format!("the reference rejects the encoder stream the real encoder produced: {e:?}"))),
                }
                if ref_pending.len() != dec_pending.len() {
                    return Err(mk("C20.instruction_boundaries_differ", format!("real decoder left {} bytes unconsumed, the reference {}", dec_pending.len(), ref_pending.len())));
                }
                let (cur_size, max_size, entries) = dec.verif_table().verif_sizes();
                if cur_size > max_size {
                    return Err(mk("C20.table_exceeds_capacity", format!("decoder table size {cur_size} > capacity {max_size}")).fact("side", "decoder"));
                }
                if (cur_size, max_size, entries) != (refd.size, refd.capacity, refd.entries.len()) {
                    return Err(mk("C20.decoder_table_differs_from_reference", format!("real decoder table (size {cur_size}, capacity {max_size}, {entries} entries) vs reference (size {}, capacity {}, {} entries)", refd.size, refd.capacity, refd.entries.len())));
                }
            }
            2 => {
                let i = undelivered[if in_order { 0 } else { draw_usize(undelivered.len()) }];
                sections[i].delivered = true;
                obs::ev("deliver_section", sections[i].stream, 0);
            }
            3 => {
                let k = if in_order { dec_avail } else { 1 + draw_usize(dec_avail) };
                let chunk = dec_tx[dec_delivered..dec_delivered + k].to_vec();
                dec_delivered += k;
                obs::ev("deliver_decoder_stream", 3, k as u64);
                obs::count("net.decoder_stream_chunk");
                enc_pending.extend_from_slice(&chunk);
                // reference view: Known Received Count
                let (instrs, n) = rq::parse_decoder_stream(&enc_pending).map_err(|e| mk("C20.decoder_stream_invalid", format!("{e:?}")))?;
                for ins in &instrs {
                    match ins {
                        DecInstr::InsertCountIncrement(k) => krc += k,
                        DecInstr::SectionAck(s) => {
                            // acknowledges the oldest unacknowledged section of that stream that has dynamic references
                            if let Some(sec) = sections.iter_mut().find(|x| x.stream == *s && x.done && x.ric > 0 && !x.acked) {
                                sec.acked = true;
                                krc = krc.max(sec.ric);
                            }
                            ack_pending.push(*s);
                        }
                        DecInstr::StreamCancel(s) => ack_pending.push(*s),
                    }
                }
                let mut cur = Cursor::new(&enc_pending[..]);
                let r = std::panic::catch_unwind(std::panic::AssertUnwindSafe(|| enc.on_decoder_recv(&mut cur)));
                let consumed = cur.position() as usize;
                match r {
                    Err(_) => {
                        let (msg, loc) = exec::take_last_panic().unwrap_or_default();
                        return Err(mk("C20.panic", format!("Encoder::on_decoder_recv panicked: {msg} at {loc}")).fact("at", loc.rsplit('/').next().unwrap_or("")));
                    }
                    Ok(Err(e)) => return Err(mk("C20.encoder_rejects_decoder_stream", format!("Encoder::on_decoder_recv failed with {e:?} on instructions {:?}", instrs))),
                    Ok(Ok(())) => {}
                }
                if consumed != n {
                    return Err(mk("C20.instruction_boundaries_differ", format!("real encoder consumed {consumed} bytes of the decoder stream, the reference {n}")));
                }
                enc_pending.drain(..consumed);
            }
            4 => {
                // capacity change by the encoder (never above the initial, which stands for the SETTINGS maximum)
                let newcap = *pick(&[0usize, 40, 64, 128, 256]).min(&capacity);
                let mut ebuf: Vec<u8> = vec![];
                match set_dynamic_table_size(enc.verif_table(), &mut ebuf, newcap) {
                    Ok(()) => {
                        obs::count("probe.capacity_changed_mid_run");
                        obs::ev("set_capacity", 2, newcap as u64);
                        enc_tx.extend_from_slice(&ebuf);
                        cur_capacity = newcap;
                        max_capacity_seen = max_capacity_seen.max(newcap);
                    }
                    Err(_) => {
                        // refused because referenced entries cannot be evicted: legitimate
                    }
                }
            }
            _ => {
                let i = blocked_now[draw_usize(blocked_now.len())];
                let st = sections[i].stream;
                // the whole stream is abandoned: every section of it that has not been decoded is gone
                for x in sections.iter_mut().filter(|x| x.stream == st && !x.done) {
                    x.cancelled = true;
                }
                cancelled_streams.insert(st);
                stream_canceled(sections[i].stream, &mut dec_tx);
                obs::count("probe.stream_cancelled_while_blocked");
                obs::ev("cancel", sections[i].stream, 0);
            }
        }
        let _ = cur_capacity;
        // encoder table never exceeds its capacity
        let (cur_size, max_size, _) = enc.verif_table().verif_sizes();
        if cur_size > max_size {
            return Err(mk("C20.table_exceeds_capacity", format!("encoder table size {cur_size} > capacity {max_size}")).fact("side", "encoder"));
        }
        // (re-)present every delivered, undecoded section to the decoder
        // (a stream's second section is only looked at once its first has been decoded)
        let presentable: Vec<usize> = sections.iter().enumerate().filter(|(i, s)| s.delivered && !s.done && !s.cancelled && !sections[..*i].iter().any(|e| e.stream == s.stream && !e.done && !e.cancelled)).map(|(i, _)| i).collect();
        for i in presentable {
            if sections[..i].iter().any(|e| e.stream == sections[i].stream && !e.done && !e.cancelled) {
                continue;
            }
            let s = &mut sections[i];
            if s.bytes.first().copied().unwrap_or(0) != 0 && refd.capacity as usize / 32 != capacity / 32 {
                capdiff.set(true);
            }
            let refr = rq::decode_section(&refd, &s.bytes, capacity);
            let mut cur = Cursor::new(&s.bytes[..]);
            let real = std::panic::catch_unwind(std::panic::AssertUnwindSafe(|| dec.decode_header(&mut cur)));
            let real = match real {
                Ok(r) => r,
                Err(_) => {
                    let (msg, loc) = exec::take_last_panic().unwrap_or_default();
                    return Err(mk("C20.panic", format!("Decoder::decode_header panicked: {msg} at {loc}")).fact("at", loc.rsplit('/').next().unwrap_or("")));
                }
            };
            match refr {
                Err(RefErr::Blocked(ric)) => {
                    s.blocked_seen = true;
                    obs::count("probe.section_blocked");
                    match real {
                        Err(DecoderError::MissingRefs(_)) => {}
                        Ok(d) => return Err(mk("C20.blocked_section_decoded", format!("stream {}: the section needs {ric} insertions, only {} were delivered, but the decoder returned {:?} (original {:?})", s.stream, refd.inserted, show(&from_hf(&d.fields)), show(&s.fields))).fact("result", if from_hf(&d.fields) == s.fields { "right_list" } else { "wrong_list" })),
                        Err(e) => return Err(mk("C20.blocked_section_other_error", format!("stream {}: expected 'blocked' (needs {ric} insertions, {} delivered), decoder failed with {e:?}", s.stream, refd.inserted))),
                    }
                }
                Err(e) => {
                    return Err(mk("C20.section_invalid_for_reference_decoder", format!("stream {}: section [{}] cannot be decoded against the instructions delivered so far ({} insertions, {} evicted): {e:?}; original {:?}; real decoder: {:?}", s.stream, s.bytes.iter().map(|b| format!("{b:02x}")).collect::<Vec<_>>().join(" "), refd.inserted, refd.evicted, show(&s.fields), real.as_ref().map(|d| show(&from_hf(&d.fields))).map_err(|e| format!("{e:?}")))).fact("why", match &e {
                        RefErr::Invalid(m) if m.contains("evicted") => "evicted_entry_referenced",
                        RefErr::Invalid(m) if m.contains("Required Insert Count") => "required_insert_count",
                        _ => "other",
                    }));
                }
                Ok((list, ric)) => {
                    if list != s.fields {
                        return Err(mk("C20.encoder_emitted_wrong_section", format!("stream {}: the reference decodes the section to {:?}, the original list is {:?}", s.stream, show(&list), show(&s.fields))));
                    }
                    match real {
                        Ok(d) if from_hf(&d.fields) == s.fields => {
                            s.done = true;
                            s.ric = ric;
                            if ric > 0 {
                                ack_header(s.stream, &mut dec_tx);
                                obs::count("probe.section_with_dynamic_refs");
                            }
                            if s.blocked_seen {
                                obs::count("probe.section_unblocked_later");
                            }
                        }
                        Ok(d) => return Err(mk("C20.decoder_wrong_list", format!("stream {}: decoder returned {:?}, original {:?}", s.stream, show(&from_hf(&d.fields)), show(&s.fields)))),
                        Err(e) => return Err(mk("C20.decodable_section_rejected", format!("stream {}: all {ric} required insertions were delivered ({}), the reference decodes the section, the decoder fails with {e:?}", s.stream, refd.inserted)).fact("error", format!("{e:?}").split('(').next().unwrap_or(""))),
                    }
                }
            }
        }
    }
    // everything has been delivered: nothing may remain blocked
    if let Some(s) = sections.iter().find(|s| !s.done && !s.cancelled) {
        return Err(mk("C20.section_never_decoded", format!("stream {}: all instructions and sections were delivered but the section was never decoded", s.stream)));
    }
    if let Some(v) = deferred_unacked {
        return Err(v);
    }
    if let Some(v) = deferred {
        return Err(v);
    }
    let with_dyn = sections.iter().filter(|s| s.ric > 0).count();
    let sample = json!({"capacity": capacity, "blocked_limit": max_blocked, "sections": sections.len(), "sections_with_dynamic_refs": with_dyn, "insertions": refd.inserted, "evictions": refd.evicted, "encoder_stream_bytes": enc_tx.len(), "decoder_stream_bytes": dec_tx.len(), "first_section": sections.first().map(|s| show(&s.fields)), "in_order": in_order});
    let _ = ctx;
    if refd.evicted > 0 {
        obs::count("probe.eviction_happened");
    }
    Ok((sample, with_dyn > 0))
}

fn ack_pending_done(_acks: &[u64], _stream: u64, _done: bool) -> bool {
    false
}

impl Check for C20 {
    fn id(&self) -> &'static str {
        "C20"
    }
    fn meta(&self) -> Meta {
        Meta {
            level: "exploration",
            rule: "workloads of 1-40 field sections of 1-5 fields over an alphabet of 8 names x 8 values (forcing duplicates, name references, static hits, evictions), table capacity over {0, 33, 36, 40 (one entry), 64, 100, 128, 256, 512, 1024, 4096}, blocked-stream limit over {0,1,2,5,100}, one section in four the second (trailers) section of the stream that carried the previous one - delivered, decoded and acknowledged in stream order -, occasional capacity changes and cancellations of blocked streams (which abandon every undecoded section of the stream); delivery schedules of the three channels drawn (encoder-stream bytes in arbitrary chunks and arbitrarily late, sections in any order, decoder-stream bytes late and chunked; one run in five is prompt and in order); non-trivial = at least one section referenced the dynamic table; distinct = distinct schedule signatures",
            real: &["h3::qpack::{Encoder, Decoder, DynamicTable} (stateful), vas, stream instruction codecs, block representations (through the verif-hooks re-export)"],
            stub: &["the three channels between encoder and decoder (owned by the simulator)", "the layer above the decoder that emits Section Acknowledgment / Stream Cancellation"],
            assumptions: &["this code is not reachable from h3's connection code today (stateless codec is used); the reference (refs::qpack_dyn) takes MaxEntries from the initial capacity, which stands for SETTINGS_QPACK_MAX_TABLE_CAPACITY", "the blocked-stream limit is judged with the Known Received Count reconstructed by the reference from the decoder stream as delivered to the encoder"],
            quick_runs: 700_000,
            thorough_runs: 28_000_000,
        }
    }
    fn run(&self, ctx: &RunCtx) -> RunOut {
        match simulate(ctx) {
            Err(v) if v.rule == "HARNESS" => RunOut { harness_error: Some(v.detail), ..Default::default() },
            Err(v) => RunOut::fail(v),
            Ok((sample, nontrivial)) => {
                let mut out = RunOut::ok(nontrivial);
                if ctx.want_sample {
                    out.sample = Some(sample);
                }
                out
            }
        }
    }
}

//! C05 — one connection error, seen everywhere, never lost between tasks.
//! Engine E2: the driver and each stream task run on their own OS thread, but only the thread
//! holding the baton runs; the baton returns to the scheduler at every guarded pre-emption point
//! compiled into h3 (feature verif-hooks), whenever a thread would park, and when it is done.
//! Who gets the baton next (or which transport event fires) is a drawn choice.
use super::common::*;
use super::peer::*;
use crate::choice::{draw, draw_usize, pick};
use crate::exec::World;
use crate::net::{self, Net, NetCfg, NetWorld, SimBuf, SimConn, CLIENT, SERVER};
use crate::obs;
use crate::refs::frames;
use crate::refs::varint;
use crate::runner::{Check, Meta, RunCtx, RunOut, Violation};
use h3::ConnectionState;
use serde_json::json;
use std::cell::RefCell;
use std::future::Future;
use std::pin::pin;
use std::sync::{Arc, Condvar, Mutex, Once};
use std::task::{Context, Poll, Wake, Waker};

pub struct C05;

#[derive(Clone, Copy, PartialEq, Debug)]
enum St {
    Runnable,
    Parked,
    Woken,
    Done,
}
struct Inner {
    current: Option<usize>,
    st: Vec<St>,
    trace: Vec<(usize, &'static str)>,
    abort: bool,
}
struct Sched {
    m: Mutex<Inner>,
    cv: Condvar,
    /// this run hands the baton over at every single shared-state operation (the `shared.*` points), not
    /// only at the four named points; drawn per run, swarm style, because the finer grain dilutes the
    /// interleavings around the named points
    fine: bool,
    /// this run's request tasks start only once the driver has parked (or ended) for the first time: a request
    /// task that fails on its first turn otherwise nearly always beats the driver's first poll (swarm style)
    late: bool,
}
thread_local! {
    static ME: RefCell<Option<(usize, Arc<Sched>)>> = const { RefCell::new(None) };
}

impl Sched {
    /// returns false if the run is being torn down
    fn wait_turn(&self, me: usize) -> bool {
        let mut g = self.m.lock().unwrap();
        while g.current != Some(me) && !g.abort {
            g = self.cv.wait(g).unwrap();
        }
        !g.abort
    }
    /// hand the baton back with state `st`; wait to be scheduled again unless Done
    fn yield_with(&self, me: usize, st: St, why: &'static str) -> bool {
        {
            let mut g = self.m.lock().unwrap();
            if g.abort {
                return false;
            }
            g.st[me] = if st == St::Parked && g.st[me] == St::Woken { St::Woken } else { st };
            g.trace.push((me, why));
            g.current = None;
        }
        self.cv.notify_all();
        if st != St::Done {
            self.wait_turn(me)
        } else {
            true
        }
    }
}
struct ThreadWaker {
    id: usize,
    s: Arc<Sched>,
    notified: Mutex<bool>,
}
impl Wake for ThreadWaker {
    fn wake(self: Arc<Self>) {
        self.wake_by_ref()
    }
    fn wake_by_ref(self: &Arc<Self>) {
        *self.notified.lock().unwrap() = true;
        let mut g = self.s.m.lock().unwrap();
        if g.st[self.id] == St::Parked {
            g.st[self.id] = St::Woken;
        }
    }
}
fn hook(point: &'static str) {
    let me = ME.with(|m| m.borrow().clone());
    if let Some((id, s)) = me {
        if point.starts_with("shared.") && !s.fine {
            return;
        }
        s.yield_with(id, St::Runnable, point);
    }
}
static HOOK: Once = Once::new();

/// poll `f` to completion on this thread under the scheduler; None if the run was torn down first.
/// A fresh waker object is used for every poll (the task "moves between wakers").
fn block_on<F: Future>(id: usize, s: &Arc<Sched>, f: F) -> Option<F::Output> {
    let mut f = pin!(f);
    loop {
        let tw = Arc::new(ThreadWaker { id, s: s.clone(), notified: Mutex::new(false) });
        let w = Waker::from(tw.clone());
        let mut cx = Context::from_waker(&w);
        {
            // a wake from an older waker object of this thread is folded into the thread state by the scheduler
        }
        if let Poll::Ready(v) = f.as_mut().poll(&mut cx) {
            return Some(v);
        }
        let was = *tw.notified.lock().unwrap();
        let ok = if was { s.yield_with(id, St::Runnable, "woken-during-poll") } else { s.yield_with(id, St::Parked, "park") };
        if !ok {
            return None;
        }
    }
}

#[derive(Clone, Copy, Debug, PartialEq)]
enum Kind {
    NoAuthority,
    BadFrame,
    Truncated,
    BadQpack,
    DropSender,
    /// the transport reports a connection-level error on the request stream first (the connection-level calls
    /// the driver makes report nothing): only the wake-up through the shared state can reach the driver
    QuicConn,
}
fn drawn_stream_fault() -> net::ConnFault {
    match draw(4) {
        0 | 1 => net::ConnFault::Internal("simulated transport-internal error".into()),
        2 => net::ConnFault::AppClose(0x101),
        _ => net::ConnFault::Timeout,
    }
}
#[derive(Default, Debug, Clone)]
struct Rec {
    driver: Vec<String>,
    handles: Vec<(usize, String, String)>, // (task, call, connection error or other outcome)
    cell: Option<String>,
    panic: Option<String>,
}

/// run a thread body; a panic inside it (h3 code) is recorded and the baton is given back
fn guarded(id: usize, s: &Arc<Sched>, rec: &Arc<Mutex<Rec>>, body: impl FnOnce()) {
    let r = std::panic::catch_unwind(std::panic::AssertUnwindSafe(body));
    if r.is_err() {
        let (msg, loc) = crate::exec::take_last_panic().unwrap_or_default();
        rec.lock().unwrap().panic = Some(format!("{msg} at {loc}"));
        ME.with(|m| *m.borrow_mut() = None);
        let mut g = s.m.lock().unwrap();
        g.st[id] = St::Done;
        g.trace.push((id, "panic"));
        if g.current == Some(id) {
            g.current = None;
        }
        drop(g);
        s.cv.notify_all();
    }
}

/// handles that must stay alive until the judgement's snapshot has been taken (dropping them earlier would be
/// an action of the scenario); dropped with the run instead of being leaked
type Keep = Arc<Mutex<Vec<Box<dyn std::any::Any + Send>>>>;

fn conn_of(e: &h3::error::StreamError) -> Option<String> {
    match sout(e) {
        SOut::Conn(c) => Some(c.to_string()),
        _ => None,
    }
}

fn one_run_client(ctx: &RunCtx) -> RunOut {
    HOOK.call_once(|| h3::verif::set_preempt_hook(hook));
    let ntasks = 1 + draw_usize(3);
    let mut kinds: Vec<Kind> = (0..ntasks).map(|_| *pick(&[Kind::BadFrame, Kind::NoAuthority, Kind::Truncated, Kind::BadQpack, Kind::QuicConn])).collect();
    let faults: Vec<net::ConnFault> = (0..ntasks).map(|_| drawn_stream_fault()).collect();
    if kinds.contains(&Kind::QuicConn) {
        obs::count("probe.connection_error_reported_on_a_request_stream_first");
    }
    if ntasks == 1 && draw(4) == 3 {
        kinds[0] = Kind::DropSender;
    }
    // one run in four (not with DropSender): every task lets go of its SendRequest as soon as its request is out
    // and the original is dropped up front, so "the last SendRequest was dropped" (H3_NO_ERROR) races with the
    // errors the request handles detect themselves while their requests are still in flight
    let early_drop = !kinds.contains(&Kind::DropSender) && draw(4) == 3;
    if early_drop {
        obs::count("probe.senders_dropped_while_requests_in_flight");
    }
    // what the driver may detect itself / what the transport reports
    let driver_side = draw(4); // 0 nothing, 1 second control stream, 2 peer closes with an application code, 3 nothing
    let peer_close_code = *pick(&[0x101u64, 0x100, 0x10c]);
    let net = Net::new(NetCfg::default());
    {
        let mut n = net.lock().unwrap();
        peer_control(&mut n, SERVER, &[]);
    }
    // build the client on this thread (no hooks fire: ME is unset here)
    let conn: SimConn = net::conn(&net, CLIENT);
    let (driver, send_request) = {
        struct Noop;
        impl Wake for Noop {
            fn wake(self: Arc<Self>) {}
        }
        let w = Waker::from(Arc::new(Noop));
        let mut cx = Context::from_waker(&w);
        let mut b = h3::client::builder();
        b.send_grease(false);
        let mut f = pin!(b.build::<_, _, SimBuf>(conn));
        match f.as_mut().poll(&mut cx) {
            Poll::Ready(Ok(x)) => x,
            Poll::Ready(Err(e)) => return RunOut { harness_error: Some(format!("build failed: {e}")), ..Default::default() },
            Poll::Pending => return RunOut { harness_error: Some("build pending with an always-ready transport".into()), ..Default::default() },
        }
    };
    // In some runs the driver has already consumed the peer's SETTINGS (polled from this thread under a
    // throw-away waker) before the race begins: its next poll then finds nothing to process, so nothing but
    // the error wake-up can bring it back (and the waker slot holds a stale waker).
    let (mut driver, send_request) = (driver, send_request);
    let pre_drive = draw(2) == 1;
    if pre_drive {
        struct Noop2;
        impl Wake for Noop2 {
            fn wake(self: Arc<Self>) {}
        }
        let w = Waker::from(Arc::new(Noop2));
        let mut cx = Context::from_waker(&w);
        let mut world = NetWorld(net.clone());
        for _ in 0..200 {
            let n = world.count_enabled();
            if n == 0 {
                break;
            }
            world.fire(0);
        }
        if let Poll::Ready(e) = driver.poll_close(&mut cx) {
            return RunOut { harness_error: Some(format!("driver ended during pre-drive: {e}")), ..Default::default() };
        }
        obs::count("probe.driver_pre_driven");
    }
    // optional driver-side cause, prepared by the peer
    {
        let mut n = net.lock().unwrap();
        match driver_side {
            1 => {
                let id = n.raw_open_next(SERVER, true);
                n.raw_write(id, SERVER, &varint::encode(frames::ST_CONTROL));
            }
            2 => n.raw_close(SERVER, peer_close_code),
            _ => {}
        }
    }
    let nthreads = 1 + ntasks;
    let s = Arc::new(Sched { m: Mutex::new(Inner { current: None, st: vec![St::Runnable; nthreads], trace: vec![], abort: false }), cv: Condvar::new(), fine: draw(2) == 1, late: draw(3) == 2 });
    let rec: Arc<Mutex<Rec>> = Default::default();
    let keep: Keep = Default::default();
    let mut joins = vec![];
    // T0: the driver
    {
        let s0 = s.clone();
        let rec = rec.clone();
        let mut driver = driver;
        let keepd = keep.clone();
        joins.push(std::thread::spawn(move || {
            let (sg, rg) = (s0.clone(), rec.clone());
            guarded(0, &sg, &rg, move || {
            ME.with(|m| *m.borrow_mut() = Some((0, s0.clone())));
            if s0.wait_turn(0) {
                let r = block_on(0, &s0, std::future::poll_fn(|cx| driver.poll_close(cx)));
                if let Some(e) = r {
                    rec.lock().unwrap().driver.push(cout(&e).to_string());
                    // later driver calls keep returning it
                    for _ in 0..2 {
                        if let Some(e) = block_on(0, &s0, std::future::poll_fn(|cx| driver.poll_close(cx))) {
                            rec.lock().unwrap().driver.push(cout(&e).to_string());
                        }
                    }
                }
                rec.lock().unwrap().cell = driver.get_conn_error().map(|e| format!("{e}"));
                s0.yield_with(0, St::Done, "done");
            }
            ME.with(|m| *m.borrow_mut() = None);
            keepd.lock().unwrap().push(Box::new(driver)); // dropped after the judgement: no teardown effects on the record
            });
        }));
    }
    for (t, kind) in kinds.iter().enumerate() {
        let id = t + 1;
        let st = s.clone();
        let rec = rec.clone();
        let net = net.clone();
        let kind = *kind;
        let fault = faults[t].clone();
        let keep = keep.clone();
        let mut sr_slot = Some(send_request.clone());
        joins.push(std::thread::spawn(move || {
            let (sg, rg) = (st.clone(), rec.clone());
            guarded(id, &sg, &rg, move || {
            ME.with(|m| *m.borrow_mut() = Some((id, st.clone())));
            if st.wait_turn(id) {
                let push = |call: &str, out: String| rec.lock().unwrap().handles.push((id, call.to_string(), out));
                let sr = sr_slot.as_mut().unwrap();
                match kind {
                    Kind::DropSender => {
                        // handled below: this thread's clone is the one that is dropped last
                    }
                    Kind::NoAuthority => {
                        let req = http::Request::get("/no-authority").body(()).unwrap();
                        if let Some(r) = block_on(id, &st, sr.send_request(req)) {
                            match r {
                                Err(e) => push("send_request", conn_of(&e).unwrap_or_else(|| format!("other: {e}"))),
                                Ok(_) => push("send_request", "ok?!".into()),
                            }
                        }
                    }
                    _ => {
                        let req = http::Request::get("https://example.com/c05").body(()).unwrap();
                        if let Some(r) = block_on(id, &st, sr.send_request(req)) {
                            match r {
                                Err(e) => push("send_request", conn_of(&e).unwrap_or_else(|| format!("other: {e}"))),
                                Ok(mut stream) => {
                                    let sid = stream.id().into_inner();
                                    if early_drop {
                                        drop(sr_slot.take()); // hooks active: the last one raises H3_NO_ERROR from this thread
                                    }
                                    {
                                        // the peer answers with something that raises a connection error
                                        let mut n = net.lock().unwrap();
                                        if kind == Kind::QuicConn {
                                            n.raw_stream_conn_error(sid, SERVER, fault.clone());
                                        } else {
                                            let bytes: Vec<u8> = match kind {
                                                Kind::BadFrame => frames::frame(frames::CANCEL_PUSH, &[0x00]),
                                                Kind::Truncated => vec![0x01, 0x0a, 0x00, 0x00, 0xd1],
                                                _ => frames::frame(frames::HEADERS, &[0x05, 0x00, 0x80]),
                                            };
                                            n.raw_write(sid, SERVER, &bytes);
                                            n.raw_fin(sid, SERVER);
                                        }
                                    }
                                    let _ = block_on(id, &st, stream.finish());
                                    if let Some(r) = block_on(id, &st, stream.recv_response()) {
                                        match r {
                                            Err(e) => push("recv_response", conn_of(&e).unwrap_or_else(|| format!("other: {e}"))),
                                            Ok(_) => push("recv_response", "ok?!".into()),
                                        }
                                    }
                                    // later calls on the same handle
                                    if let Some(r) = block_on(id, &st, stream.recv_data()) {
                                        match r {
                                            Err(e) => push("recv_data(later)", conn_of(&e).unwrap_or_else(|| format!("other: {e}"))),
                                            Ok(_) => push("recv_data(later)", "ok".into()),
                                        }
                                    }
                                    keep.lock().unwrap().push(Box::new(stream));
                                }
                            }
                        }
                        // and a later send_request on the same handle
                        let req = http::Request::get("https://example.com/later").body(()).unwrap();
                        if let Some(sr) = sr_slot.as_mut() {
                            if let Some(r) = block_on(id, &st, sr.send_request(req)) {
                                match r {
                                    Err(e) => push("send_request(later)", conn_of(&e).unwrap_or_else(|| format!("other: {e}"))),
                                    Ok(s2) => {
                                        push("send_request(later)", "ok".into());
                                        keep.lock().unwrap().push(Box::new(s2));
                                    }
                                }
                            }
                        }
                    }
                }
                if kind == Kind::DropSender {
                    drop(sr_slot.take()); // hooks active: the last sender's drop raises H3_NO_ERROR from this thread
                    st.yield_with(id, St::Done, "done");
                    ME.with(|m| *m.borrow_mut() = None);
                    return;
                }
                st.yield_with(id, St::Done, "done");
            }
            ME.with(|m| *m.borrow_mut() = None);
            keep.lock().unwrap().push(Box::new(sr_slot));
            });
        }));
    }
    // the original SendRequest: dropped up front when a task is to be the last sender, kept otherwise
    if kinds == vec![Kind::DropSender] || early_drop {
        drop(send_request);
    } else {
        keep.lock().unwrap().push(Box::new(send_request));
    }
    let last_sender_dropped = kinds == vec![Kind::DropSender];
    let out = schedule_and_judge(ctx, &s, &rec, &net, CLIENT, joins, &format!("{kinds:?}"), driver_side, last_sender_dropped);
    drop(keep);
    out
}

/// The scheduler (who gets the baton next, or which transport event fires, is a drawn choice), then the
/// judgement at exact quiescence, shared by the client-role and the server-role scenario.
#[allow(clippy::too_many_arguments)]
fn schedule_and_judge(ctx: &RunCtx, s: &Arc<Sched>, rec: &Arc<Mutex<Rec>>, net: &net::Shared, h3side: u8, joins: Vec<std::thread::JoinHandle<()>>, kinds: &str, driver_side: u32, last_sender_dropped: bool) -> RunOut {
    let mut world = NetWorld(net.clone());
    let mut steps = 0u32;
    let mut harness_err = None;
    loop {
        steps += 1;
        if steps > 5000 {
            harness_err = Some("E2 step cap".to_string());
            break;
        }
        let elig: Vec<usize> = {
            let mut g = s.m.lock().unwrap();
            while g.current.is_some() {
                g = s.cv.wait(g).unwrap();
            }
            let driver_settled = !s.late || matches!(g.st[0], St::Parked | St::Done) || g.trace.iter().any(|(t, w)| *t == 0 && *w == "park");
            (0..g.st.len()).filter(|&i| matches!(g.st[i], St::Runnable | St::Woken) && (i == 0 || driver_settled)).collect()
        };
        let nev = world.count_enabled();
        let total = elig.len() + nev;
        if total == 0 {
            break;
        }
        let p = draw(total as u32) as usize;
        if p < elig.len() {
            let t = elig[p];
            {
                let mut g = s.m.lock().unwrap();
                g.st[t] = St::Runnable;
                g.current = Some(t);
            }
            s.cv.notify_all();
        } else {
            world.fire(p - elig.len());
        }
    }
    // quiescence: judge, then tear down
    let (states, trace) = {
        let g = s.m.lock().unwrap();
        (g.st.clone(), g.trace.clone())
    };
    for (t, why) in &trace {
        obs::ev(why, *t as u64 * 4, 0);
    }
    let r = rec.lock().unwrap().clone();
    let closes = net.lock().unwrap().closes_by(h3side);
    {
        let mut g = s.m.lock().unwrap();
        g.abort = true;
    }
    s.cv.notify_all();
    for j in joins {
        let _ = j.join();
    }
    if let Some(h) = harness_err {
        return RunOut { harness_error: Some(h), ..Default::default() };
    }
    let trace_s: Vec<String> = trace.iter().map(|(t, w)| format!("T{t}:{w}")).collect();
    obs::note(|| format!("role {} kinds {} driver_side {driver_side}; states {:?}; record {:?}; closes {:?}", if h3side == CLIENT { "client" } else { "server" }, kinds, states, r, closes));
    if let Some(p) = &r.panic {
        if p.contains("/verif/sim/src") {
            return RunOut { harness_error: Some(format!("harness panic on a worker thread: {p}")), ..Default::default() };
        }
        return RunOut::fail(Violation::new("C05.panic", format!("h3 panicked: {p}; stream tasks {}; trace {:?}", kinds, trace_s)).fact("at", p.rsplit('/').next().unwrap_or("")));
    }
    let mk = |rule: &str, d: String| RunOut::fail(Violation::new(rule, format!("{d}; stream tasks {}, driver-side cause {driver_side}; driver {:?}; handles {:?}; closes {:?}; hook/park trace {:?}", kinds, r.driver, r.handles, closes.iter().map(|c| code_name(*c)).collect::<Vec<_>>(), trace_s)).fact("role", if h3side == CLIENT { "client" } else { "server" }));
    // all connection errors reported anywhere
    let mut all: Vec<&String> = r.driver.iter().collect();
    all.extend(r.handles.iter().map(|h| &h.2).filter(|o| !o.starts_with("ok") && !o.starts_with("other")));
    let error_raised = !all.is_empty();
    // (3) no lost wake-up: at quiescence a set error has reached the driver
    let any_stream_done_with_error = r.handles.iter().any(|h| !h.2.starts_with("ok") && !h.2.starts_with("other")) || (last_sender_dropped && states[1] == St::Done);
    if any_stream_done_with_error && states[0] != St::Done {
        return mk("C05.driver_parked_with_error_set", format!("a connection error was raised from a request task but the driver is {:?} at quiescence", states[0]));
    }
    if !error_raised && !last_sender_dropped {
        return mk("C05.no_error_observed", "the scenario raised no connection error (harness expectation)".into());
    }
    // (1) exactly one outcome
    if let Some(first) = all.first() {
        if let Some(other) = all.iter().find(|e| e != &first) {
            return mk("C05.different_connection_errors_reported", format!("{first} and {other} were both reported as the connection's error"));
        }
    }
    if let Some(h) = r.handles.iter().find(|h| h.2.starts_with("other") || h.2 == "ok?!") {
        return mk("C05.unexpected_handle_result", format!("task {} {} returned {}", h.0, h.1, h.2));
    }
    // (4) later driver calls keep returning it
    if states[0] == St::Done && r.driver.len() != 3 {
        return mk("C05.driver_later_calls", format!("driver returned {} results for 3 calls", r.driver.len()));
    }
    // (2) close code
    if let Some(out) = r.driver.first() {
        if let Some(code) = out.strip_prefix("Local(").map(|s| s.trim_end_matches(')').to_string()) {
            let names: Vec<String> = closes.iter().map(|c| code_name(*c)).collect();
            if names.first() != Some(&code) {
                return mk("C05.close_code_differs_from_error", format!("the error is {out} but the effective close is {:?}", names.first()));
            }
            if names.iter().any(|n| *n != code) {
                return mk("C05.closed_with_different_codes", format!("close calls {:?}", names));
            }
        } else {
            // transport-origin error: h3 must not close with another code (an error the transport calls internal
            // is answered with H3_INTERNAL_ERROR; that is h3's documented handling, admitted here)
            let internal = out == "RemoteInternal" && closes.iter().all(|c| *c == 0x102);
            if !closes.is_empty() && !internal {
                return mk("C05.close_on_remote_error", format!("the outcome is {out} but h3 closed with {:?}", closes.iter().map(|c| code_name(*c)).collect::<Vec<_>>()));
            }
        }
    }
    let hooks = trace.iter().filter(|(_, w)| w.contains('.')).count();
    if trace.iter().any(|(t, w)| *t == 0 && *w == "driver.checked_before_register") && trace.iter().any(|(_, w)| *w == "conn_error.stored_before_wake") {
        obs::count("probe.store_and_driver_check_in_same_run");
    }
    // the critical window: a store that happens between the driver's check and its registration
    let mut in_window = false;
    for (t, w) in &trace {
        if *t == 0 && *w == "driver.checked_before_register" {
            in_window = true;
        } else if *t == 0 && *w == "driver.registered" {
            in_window = false;
        } else if in_window && *w == "conn_error.stored_before_wake" {
            obs::count("probe.error_stored_inside_check_register_window");
            break;
        }
    }
    if kinds.contains("QuicConn") && !["Bad", "Trunc", "NoAuth", "Drop"].iter().any(|k| kinds.contains(k)) && (driver_side == 0 || driver_side == 3) {
        // nothing but the wake-up through the shared state can have told the driver
        obs::count("probe.only_the_shared_state_wakeup_could_reach_the_driver");
        if trace.iter().any(|(t, w)| *t == 0 && *w == "park") {
            obs::count("probe.driver_was_parked_when_only_the_wakeup_could_reach_it");
        }
    }
    if driver_side == 1 {
        obs::count("probe.driver_detects_own_error");
    }
    if driver_side == 2 {
        obs::count("fault.peer_application_close");
    }
    let mut out = RunOut::ok(hooks >= 2);
    if ctx.want_sample {
        out.sample = Some(json!({"role": if h3side == CLIENT { "client" } else { "server" }, "stream_tasks": kinds, "driver_side_cause": driver_side, "outcome": r.driver.first(), "handles": r.handles, "closes": closes.iter().map(|c| code_name(*c)).collect::<Vec<_>>(), "trace": trace_s}));
    }
    out
}


/// A one-shot hand-over of a value from the driver thread to a request thread, waking the receiver through
/// its task waker (so that the wait is an ordinary park of the controlled-thread engine).
struct Slot<T> {
    v: Mutex<(Option<T>, Option<Waker>, bool)>,
}
impl<T> Slot<T> {
    fn new() -> Arc<Self> {
        Arc::new(Slot { v: Mutex::new((None, None, false)) })
    }
    fn put(&self, t: T) {
        let w = {
            let mut g = self.v.lock().unwrap();
            g.0 = Some(t);
            g.1.take()
        };
        if let Some(w) = w {
            w.wake();
        }
    }
    /// nothing will ever be put: the receiver gives up
    fn close(&self) {
        let w = {
            let mut g = self.v.lock().unwrap();
            g.2 = true;
            g.1.take()
        };
        if let Some(w) = w {
            w.wake();
        }
    }
    fn poll_take(&self, cx: &mut Context<'_>) -> Poll<Option<T>> {
        let mut g = self.v.lock().unwrap();
        if let Some(t) = g.0.take() {
            return Poll::Ready(Some(t));
        }
        if g.2 {
            return Poll::Ready(None);
        }
        g.1 = Some(cx.waker().clone());
        Poll::Pending
    }
}

/// Server role: the driver thread runs the accept() loop (its first ever poll included) and hands each
/// accepted request to its own thread, where a real API call raises a distinct connection error.
fn one_run_server(ctx: &RunCtx) -> RunOut {
    HOOK.call_once(|| h3::verif::set_preempt_hook(hook));
    let ntasks = 1 + draw_usize(3);
    let kinds: Vec<Kind> = (0..ntasks).map(|_| *pick(&[Kind::BadFrame, Kind::Truncated, Kind::BadQpack, Kind::QuicConn])).collect();
    if kinds.contains(&Kind::QuicConn) {
        obs::count("probe.connection_error_reported_on_a_request_stream_first");
    }
    let driver_side = draw(4); // 0 nothing, 1 second control stream, 2 peer closes with an application code, 3 nothing
    let peer_close_code = *pick(&[0x101u64, 0x100, 0x10c]);
    let net = Net::new(NetCfg::default());
    let mut sids = vec![];
    {
        let mut n = net.lock().unwrap();
        peer_control(&mut n, CLIENT, &[]);
        for kind in &kinds {
            let sid = n.raw_open_next(CLIENT, false);
            let req = headers_frame(&request_fields("POST", "/c05"));
            let bytes: Vec<u8> = match kind {
                Kind::BadFrame => [req, frames::frame(frames::CANCEL_PUSH, &[0x00])].concat(),
                Kind::Truncated | Kind::QuicConn => [req, vec![0x00, 0x0a, b'a']].concat(),
                _ => frames::frame(frames::HEADERS, &[0x05, 0x00, 0x80]),
            };
            n.raw_write(sid, CLIENT, &bytes);
            if *kind == Kind::QuicConn {
                // the stream stays open; once its bytes have been read the transport reports the error on it
                n.raw_stream_conn_error(sid, CLIENT, drawn_stream_fault());
            } else {
                n.raw_fin(sid, CLIENT);
            }
            sids.push(sid);
        }
    }
    // build the server on this thread (no hooks fire: ME is unset here)
    let conn: SimConn = net::conn(&net, SERVER);
    struct Noop;
    impl Wake for Noop {
        fn wake(self: Arc<Self>) {}
    }
    let mut server = {
        let w = Waker::from(Arc::new(Noop));
        let mut cx = Context::from_waker(&w);
        let mut b = h3::server::builder();
        b.send_grease(false);
        let mut f = pin!(b.build::<_, SimBuf>(conn));
        match f.as_mut().poll(&mut cx) {
            Poll::Ready(Ok(x)) => x,
            Poll::Ready(Err(e)) => return RunOut { harness_error: Some(format!("server build failed: {e}")), ..Default::default() },
            Poll::Pending => return RunOut { harness_error: Some("server build pending with an always-ready transport".into()), ..Default::default() },
        }
    };
    type Resolver = h3::server::RequestResolver<SimConn, SimBuf>;
    let slots: Vec<Arc<Slot<Resolver>>> = (0..ntasks).map(|_| Slot::new()).collect();
    let mut handed = 0usize;
    // In some runs everything the peer sent has arrived and the driver has already accepted the requests
    // (polled from this thread under a throw-away waker) before the race begins: its next poll finds nothing
    // to process and the waker slot holds a stale waker.
    let pre_drive = draw(2) == 1;
    if pre_drive {
        let w = Waker::from(Arc::new(Noop));
        let mut cx = Context::from_waker(&w);
        let mut world = NetWorld(net.clone());
        for _ in 0..400 {
            if world.count_enabled() == 0 {
                break;
            }
            world.fire(0);
        }
        for _ in 0..ntasks + 1 {
            let r = {
                let mut f = pin!(server.accept());
                f.as_mut().poll(&mut cx)
            };
            match r {
                Poll::Ready(Ok(Some(res))) => {
                    if handed < ntasks {
                        slots[handed].put(res);
                        handed += 1;
                    }
                }
                Poll::Ready(other) => return RunOut { harness_error: Some(format!("accept ended during pre-drive: {:?}", other.map(|o| o.is_some()).map_err(|e| e.to_string()))), ..Default::default() },
                Poll::Pending => break,
            }
        }
        obs::count("probe.driver_pre_driven");
    }
    // only when the requests have already been handed out: the driver's next call is shutdown(), not accept()
    let shutdown_first = pre_drive && handed == ntasks && draw(2) == 1;
    if shutdown_first {
        obs::count("probe.driver_calls_shutdown_before_accept");
    }
    {
        let mut n = net.lock().unwrap();
        match driver_side {
            1 => {
                let id = n.raw_open_next(CLIENT, true);
                n.raw_write(id, CLIENT, &varint::encode(frames::ST_CONTROL));
            }
            2 => n.raw_close(CLIENT, peer_close_code),
            _ => {}
        }
    }
    let nthreads = 1 + ntasks;
    let s = Arc::new(Sched { m: Mutex::new(Inner { current: None, st: vec![St::Runnable; nthreads], trace: vec![], abort: false }), cv: Condvar::new(), fine: draw(2) == 1, late: draw(3) == 2 });
    let rec: Arc<Mutex<Rec>> = Default::default();
    let keep: Keep = Default::default();
    let mut joins = vec![];
    // T0: the driver
    {
        let s0 = s.clone();
        let rec = rec.clone();
        let slots = slots.clone();
        let keep0 = keep.clone();
        joins.push(std::thread::spawn(move || {
            let (sg, rg) = (s0.clone(), rec.clone());
            guarded(0, &sg, &rg, move || {
                ME.with(|m| *m.borrow_mut() = Some((0, s0.clone())));
                if s0.wait_turn(0) {
                    let mut calls_after_error = 0;
                    if shutdown_first {
                        // the application begins a graceful shutdown before it goes back to accept(): an error raised
                        // by a request task meanwhile must still become the connection's outcome and close code
                        let _ = block_on(0, &s0, server.shutdown(0));
                    }
                    loop {
                        let r = block_on(0, &s0, server.accept());
                        match r {
                            None => break, // torn down
                            Some(Ok(Some(res))) => {
                                if handed < slots.len() {
                                    slots[handed].put(res);
                                    handed += 1;
                                } else {
                                    keep0.lock().unwrap().push(Box::new(res));
                                }
                            }
                            Some(Ok(None)) => {
                                rec.lock().unwrap().driver.push("accept returned None".into());
                                break;
                            }
                            Some(Err(e)) => {
                                rec.lock().unwrap().driver.push(cout(&e).to_string());
                                for sl in slots.iter() {
                                    sl.close();
                                }
                                // later driver calls keep returning it
                                calls_after_error += 1;
                                if calls_after_error == 3 {
                                    break;
                                }
                            }
                        }
                    }
                    rec.lock().unwrap().cell = server.get_conn_error().map(|e| format!("{e}"));
                    s0.yield_with(0, St::Done, "done");
                }
                ME.with(|m| *m.borrow_mut() = None);
                keep0.lock().unwrap().push(Box::new(server)); // dropped after the judgement: no teardown effects on the record
            });
        }));
    }
    for (t, kind) in kinds.iter().enumerate() {
        let id = t + 1;
        let st = s.clone();
        let rec = rec.clone();
        let kind = *kind;
        let keep = keep.clone();
        let slot = slots[t].clone();
        joins.push(std::thread::spawn(move || {
            let (sg, rg) = (st.clone(), rec.clone());
            guarded(id, &sg, &rg, move || {
                ME.with(|m| *m.borrow_mut() = Some((id, st.clone())));
                if st.wait_turn(id) {
                    let push = |call: &str, out: String| rec.lock().unwrap().handles.push((id, call.to_string(), out));
                    if let Some(Some(resolver)) = block_on(id, &st, std::future::poll_fn(|cx| slot.poll_take(cx))) {
                        match block_on(id, &st, resolver.resolve_request()) {
                            None => {}
                            Some(Err(e)) => push("resolve_request", conn_of(&e).unwrap_or_else(|| format!("other: {e}"))),
                            Some(Ok((_req, mut stream))) => {
                                if kind == Kind::BadQpack {
                                    push("resolve_request", "ok?!".into());
                                }
                                loop {
                                    match block_on(id, &st, stream.recv_data()) {
                                        None => break,
                                        Some(Ok(Some(_))) => continue,
                                        Some(Ok(None)) => {
                                            push("recv_data", "ok?!".into());
                                            break;
                                        }
                                        Some(Err(e)) => {
                                            push("recv_data", conn_of(&e).unwrap_or_else(|| format!("other: {e}")));
                                            break;
                                        }
                                    }
                                }
                                // later calls on the same handle
                                if let Some(r) = block_on(id, &st, stream.send_response(http::Response::builder().status(200).body(()).unwrap())) {
                                    match r {
                                        Err(e) => push("send_response(later)", conn_of(&e).unwrap_or_else(|| format!("other: {e}"))),
                                        Ok(()) => push("send_response(later)", "ok".into()),
                                    }
                                }
                                if let Some(r) = block_on(id, &st, stream.recv_data()) {
                                    match r {
                                        Err(e) => push("recv_data(later)", conn_of(&e).unwrap_or_else(|| format!("other: {e}"))),
                                        Ok(_) => push("recv_data(later)", "ok".into()),
                                    }
                                }
                                keep.lock().unwrap().push(Box::new(stream));
                            }
                        }
                    }
                    st.yield_with(id, St::Done, "done");
                }
                ME.with(|m| *m.borrow_mut() = None);
            });
        }));
    }
    let _ = sids;
    let out = schedule_and_judge(ctx, &s, &rec, &net, SERVER, joins, &format!("{kinds:?}"), driver_side, false);
    drop(keep);
    out
}

impl Check for C05 {
    fn id(&self) -> &'static str {
        "C05"
    }
    fn meta(&self) -> Meta {
        Meta {
            level: "exploration",
            rule: "E2, two runs in three in the client role and one in three in the server role: one driver thread (client poll_close / server accept() loop handing each accepted request to its own thread, optionally after a shutdown(0) call once the requests are handed out; first ever poll included, a fresh waker object at every poll, optionally pre-driven under a waker that is stale afterwards) and 1-3 request-task threads, each raising a distinct connection error through a real API call (client: request without authority -> H3_INTERNAL_ERROR from send_request; CANCEL_PUSH in a response -> H3_FRAME_UNEXPECTED; frame truncated by FIN -> H3_FRAME_ERROR; dynamic-table reference -> QPACK_DECOMPRESSION_FAILED; last SendRequest dropped -> H3_NO_ERROR; server: CANCEL_PUSH in a request body -> H3_FRAME_UNEXPECTED from recv_data; DATA frame truncated by FIN -> H3_FRAME_ERROR; dynamic-table reference -> QPACK_DECOMPRESSION_FAILED from resolve_request; both roles: the transport reports a connection-level error (internal error, application close or timeout) on the request stream first while the driver's own transport calls report nothing), optionally plus an error the driver detects itself (second control stream) or a transport-reported application close; the baton is handed over at the four named pre-emption points in h3 (error stored / before wake, driver checked / before register, registered, driver stored / before close) and, in one run in two, additionally at every single operation on the shared state (OnceLock get / set / get_or_init, AtomicBool load / store, AtomicWaker register / wake, instrumented under the verif-hooks feature), at every park and between transport events, the next holder drawn; in one run in three the request tasks start only after the driver has parked for the first time; client role, one run in four: every task lets go of its SendRequest as soon as its request is out (the original is dropped up front), so that 'last SendRequest dropped' (H3_NO_ERROR) races with the errors the handles detect on requests still in flight; later calls on every handle and on the driver; judged at exact quiescence (every thread parked or done, no transport event enabled); non-trivial = at least 2 pre-emption points visited; distinct = distinct sequences of (thread, pre-emption point / park)",
            real: &["h3 SharedState (OnceLock error cell, AtomicWaker), ConnectionState::set_conn_error_and_wake, ConnectionInner::{handle_connection_error, poll_connection_error, close_if_needed}", "client Connection::poll_close, SendRequest, RequestStream", "server Connection::accept, RequestResolver::resolve_request, server RequestStream", "futures_util::task::AtomicWaker, std OnceLock, real OS threads (one running at a time)"],
            stub: &["thread scheduler (baton; choice-driven)", "QUIC transport (SimQuic, plain configuration)", "peer (script)"],
            assumptions: &["only one thread runs at a time, so shared-state operations are sequentially consistent - the granularity the property states; memory-model races are out of reach"],
            quick_runs: 30_000,
            thorough_runs: 1_200_000,
        }
    }
    fn run(&self, ctx: &RunCtx) -> RunOut {
        if ctx.run % 3 == 2 {
            one_run_server(ctx)
        } else {
            one_run_client(ctx)
        }
    }
}

//! C09 — shutdown drains: accept() ends exactly when all accepted requests have.
use super::common::*;
use super::e2e::{accept_or_gate, Accepted, Gate};
use super::peer::*;
use crate::choice::{chance, draw, draw_usize, pick};
use crate::exec::{self, Exec, Stop};
use crate::net::{self, Net, NetCfg, NetWorld, SimBuf, SimConn, CLIENT, SERVER};
use crate::obs;
use crate::refs::frames;
use crate::refs::qpack;
use crate::refs::varint;
use crate::runner::{Check, Meta, RunCtx, RunOut, Violation};
use serde_json::json;
use std::cell::RefCell;
use std::rc::Rc;

pub struct C09;

#[derive(Clone, Debug, PartialEq)]
pub enum Ending {
    /// complete request, served and finished
    Normal,
    /// application drops the resolver without resolving the headers
    DropResolver,
    /// client finishes the stream before any HEADERS
    FinFirst,
    /// client resets before / after the HEADERS frame
    ResetBeforeHeaders,
    ResetAfterHeaders,
    /// validly encoded but malformed headers / oversized headers
    Malformed,
    Oversized,
    /// split into halves that are dropped at different times
    SplitDrop,
    /// the application holds on to the stream until the scenario releases it
    Hold,
    /// stream left open by the client without HEADERS: resolution stays pending until released
    NeverResolves,
    /// the application parks the resolved stream in a collection that it clears in one go when released: all
    /// these requests end between two polls of the connection
    Batch,
}

#[derive(Debug, Clone, PartialEq)]
pub enum Ev {
    HandedOut(u64),
    Ended(u64),
    AcceptNone,
    AcceptErr(String),
}

/// counts the application's live handles of one request; the last drop records `Ended`
struct Live {
    id: u64,
    log: Rc<RefCell<Vec<Ev>>>,
}
impl Drop for Live {
    fn drop(&mut self) {
        obs::ev("app.request_ended", self.id, 0);
        self.log.borrow_mut().push(Ev::Ended(self.id));
    }
}

const LIMIT: u64 = 300;

fn request_bytes(e: &Ending, i: usize) -> (Vec<u8>, bool, Option<u64>) {
    // (bytes, fin, reset code)
    let mut fields = request_fields("POST", "/c09");
    fields.push(f("x-id", &i.to_string()));
    let body = frames::frame(frames::DATA, &vec![i as u8; *pick(&[0usize, 10, 2000])]);
    match e {
        Ending::FinFirst => (vec![], true, None),
        Ending::ResetBeforeHeaders => {
            let h = headers_frame(&fields);
            let cut = draw_usize(h.len()); // strictly inside (or before) the HEADERS frame
            (h[..cut].to_vec(), false, Some(*pick(&[0x10cu64, 0])))
        }
        Ending::ResetAfterHeaders => {
            let mut b = headers_frame(&fields);
            let extra = draw_usize(body.len());
            b.extend(&body[..extra]);
            (b, false, Some(0x10c))
        }
        Ending::Malformed => {
            fields.push(f("Bad-Name", "x"));
            let mut b = frames::frame(frames::HEADERS, &qpack::encode_plain(&fields));
            b.extend(body);
            (b, true, None)
        }
        Ending::Oversized => {
            fields.push((b"x-pad".to_vec(), vec![b'p'; LIMIT as usize]));
            let mut b = headers_frame(&fields);
            b.extend(body);
            (b, true, None)
        }
        Ending::NeverResolves => (vec![], false, None),
        _ => {
            let mut b = headers_frame(&fields);
            b.extend(body);
            (b, true, None)
        }
    }
}

impl Check for C09 {
    fn id(&self) -> &'static str {
        "C09"
    }
    fn meta(&self) -> Meta {
        Meta {
            level: "exploration",
            rule: "histories of 0-4 accepted requests, each ending in one of {normal finish, resolver dropped before header resolution, FIN before HEADERS, client RESET before / after HEADERS, malformed headers, oversized headers, split into halves dropped at different times, held by the application until released, never resolving until released, parked in a collection the application clears in one step when released}; one run in sixteen is a burst of 17-24 requests all ended in that one step combined with the client's GOAWAY written at a drawn script position (push id 0 or 7; one run in three a legal sequence of 2-3 GOAWAYs with equal or decreasing ids, glued or some turns apart; in one run in three behind MAX_PUSH_ID / CANCEL_PUSH frames a server ignores: one frame, or a burst of 16-40 in the same write as the GOAWAY) and, in one run in three, a server-initiated shutdown(n), n in 0..3, at a drawn moment; in one run in three the requests are written in a drawn order and surface in arrival order (stream 4 may be accepted before stream 0); all interleavings and chunkings drawn; judged at two exact quiescence points (before and after the held requests are released); non-trivial = GOAWAY delivered and >= 1 request handed out; distinct = distinct schedule signatures",
            real: &["h3 server Connection (accept / request completion accounting)", "RequestResolver, server RequestStream and its halves, RequestEnd notification channel"],
            stub: &["QUIC transport (SimQuic)", "executor (simexec)", "peer (script)", "application (drawn handling of each request; handle lifetimes tracked by drop guards)"],
            assumptions: &["a request has ended when the application holds no handle of it any more (resolver, stream or either half), whether by drop or by a failing call that consumed it"],
            quick_runs: 700_000,
            thorough_runs: 28_000_000,
        }
    }
    fn run(&self, ctx: &RunCtx) -> RunOut {
        // one run in sixteen: a burst of 17-24 requests that the application lets go of in one step (the property
        // speaks of every request handed out; nothing in it depends on there being at most four)
        let burst = draw(16) == 15;
        let k = if burst { 17 + draw_usize(8) } else { draw_usize(5) };
        let all = [Ending::Normal, Ending::DropResolver, Ending::FinFirst, Ending::ResetBeforeHeaders, Ending::ResetAfterHeaders, Ending::Malformed, Ending::Oversized, Ending::SplitDrop, Ending::Hold, Ending::NeverResolves, Ending::Normal, Ending::Batch];
        let endings: Vec<Ending> = (0..k).map(|_| if burst { Ending::Batch } else { pick(&all).clone() }).collect();
        if burst {
            obs::count("probe.burst_of_requests_ended_in_one_step");
        }
        let batch: Rc<RefCell<Vec<Box<dyn std::any::Any>>>> = Default::default();
        let mut cfg = NetCfg::drawn();
        // one run in three: streams surface in the order their first bytes arrive (legal for an h3::quic
        // backend) and the peer writes its requests in a drawn order, so stream 4 may be accepted before 0
        let out_of_order = draw(3) == 2;
        cfg.in_order_accept = !out_of_order;
        let net = Net::new(cfg);
        let mut order: Vec<usize> = (0..k).collect();
        if out_of_order {
            for i in (1..k).rev() {
                let j = draw_usize(i + 1);
                order.swap(i, j);
            }
            if order.windows(2).any(|w| w[0] > w[1]) {
                obs::count("probe.requests_written_out_of_order");
            }
        }
        // peer script: control stream with SETTINGS now; GOAWAY and the requests at drawn positions
        let cid = {
            let mut n = net.lock().unwrap();
            let cid = peer_control(&mut n, CLIENT, &[]);
            for i in 0..k {
                n.raw_open((i as u64) << 2);
            }
            cid
        };
        let goaway_pos = draw_usize(k + 1);
        // 1 / 2: one MAX_PUSH_ID / CANCEL_PUSH frame; 3: a burst of 16-40 MAX_PUSH_ID frames glued to the GOAWAY
        let push_frames = if draw(3) == 2 { 1 + draw(3) } else { 0 };
        let burst_len = 16 + draw(25) as u64;
        // the client's GOAWAY carries a push id; it may be repeated or lowered (RFC 9114 5.2: never raised). One run
        // in three sends a legal sequence of 2-3: equal or decreasing values, glued to the first or some turns later
        let goaway_ids: Vec<u64> = if draw(3) == 2 {
            let first = *pick(&[0u64, 7, 1000, 16384]);
            let mut v = vec![first];
            for _ in 0..1 + draw(2) {
                let last = *v.last().unwrap();
                v.push(if draw(2) == 0 { last } else { last / 2 });
            }
            v
        } else {
            vec![*pick(&[0u64, 0, 0, 7])]
        };
        let goaway_glued = draw(2) == 0;
        let own_shutdown_plan: (bool, u32, usize) = if draw(3) == 2 { (true, draw(60), draw_usize(4)) } else { (false, 0, 0) };
        let log: Rc<RefCell<Vec<Ev>>> = Default::default();
        let release = Rc::new(Gate::default());
        let mut ex = Exec::new();
        ex.max_steps = 60_000;
        ex.spurious = draw(3) == 1;
        {
            let net = net.clone();
            let endings = endings.clone();
            ex.spawn("peer", async move {
                for pos in 0..=k {
                    let i = if pos < k { order[pos] } else { k };
                    if pos == goaway_pos {
                        for _ in 0..draw(6) {
                            exec::yield_now().await;
                        }
                        // one run in three: frames a server merely ignores (MAX_PUSH_ID, CANCEL_PUSH) travel ahead of
                        // the GOAWAY, in a write of their own or glued to it
                        if push_frames == 3 {
                            // everything in one write: the server finds all of it in one poll of its control stream
                            let mut b = vec![];
                            for v in 0..burst_len {
                                b.extend(frames::frame(frames::MAX_PUSH_ID, &varint::encode(v)));
                            }
                            b.extend(frames::goaway(goaway_ids[0]));
                            net.lock().unwrap().raw_write(cid, CLIENT, &b);
                            obs::count("probe.burst_of_ignored_control_frames_ahead_of_goaway");
                        } else {
                            if push_frames > 0 {
                                let f = if push_frames == 1 { frames::frame(frames::MAX_PUSH_ID, &varint::encode(7)) } else { frames::frame(frames::CANCEL_PUSH, &varint::encode(0)) };
                                net.lock().unwrap().raw_write(cid, CLIENT, &f);
                                obs::count("probe.ignored_control_frame_ahead_of_goaway");
                                for _ in 0..draw(6) {
                                    exec::yield_now().await;
                                }
                            }
                            net.lock().unwrap().raw_write(cid, CLIENT, &frames::goaway(goaway_ids[0]));
                        }
                        obs::ev("peer.goaway", goaway_ids[0], 0);
                        if goaway_ids.len() > 1 {
                            obs::count("probe.peer_goaway_repeated_or_lowered");
                            if goaway_ids.windows(2).any(|w| w[0] == w[1]) {
                                obs::count("probe.peer_goaway_repeated_with_the_same_id");
                            }
                            for g in &goaway_ids[1..] {
                                if !goaway_glued {
                                    for _ in 0..draw(8) {
                                        exec::yield_now().await;
                                    }
                                }
                                net.lock().unwrap().raw_write(cid, CLIENT, &frames::goaway(*g));
                                obs::ev("peer.goaway", *g, 0);
                            }
                        }
                    }
                    if pos < k {
                        for _ in 0..draw(6) {
                            exec::yield_now().await;
                        }
                        let id = (i as u64) << 2;
                        let (b, fin, reset) = request_bytes(&endings[i], i);
                        let mut n = net.lock().unwrap();
                        n.raw_write(id, CLIENT, &b);
                        if fin {
                            n.raw_fin(id, CLIENT);
                        }
                        if let Some(c) = reset {
                            n.raw_reset(id, CLIENT, c);
                        }
                        if b.is_empty() && !fin && reset.is_none() {
                            // a stream with nothing on it is invisible in QUIC: announce it with a grease frame header byte
                            n.raw_write(id, CLIENT, &[0x21]);
                        }
                    }
                }
            });
        }
        {
            let conn: SimConn = net::conn(&net, SERVER);
            let log = log.clone();
            let endings = endings.clone();
            let release = release.clone();
            let batch = batch.clone();
            ex.spawn("server", async move {
                let mut b = h3::server::builder();
                b.send_grease(draw(2) == 1);
                b.max_field_section_size(LIMIT);
                let mut c = match b.build::<_, SimBuf>(conn).await {
                    Ok(c) => c,
                    Err(e) => {
                        log.borrow_mut().push(Ev::AcceptErr(format!("build: {e}")));
                        return;
                    }
                };
                // one run in three: the server also begins its own graceful shutdown at a drawn moment
                // (requests accepted in its grace interval are handed out like any other)
                let mut own_shutdown: Option<(Rc<Gate>, usize)> = if own_shutdown_plan.0 {
                    let g = Rc::new(Gate::default());
                    let g2 = g.clone();
                    let delay = own_shutdown_plan.1;
                    exec::spawn("shutdown-timer", async move {
                        for _ in 0..delay {
                            exec::yield_now().await;
                        }
                        g2.open();
                    });
                    Some((g, own_shutdown_plan.2))
                } else {
                    None
                };
                loop {
                    let gate = own_shutdown.as_ref().map(|(g, _)| g.clone());
                    match accept_or_gate(&mut c, gate.as_deref()).await {
                        Accepted::Gate => {
                            let (_, n) = own_shutdown.take().unwrap();
                            obs::ev("app.shutdown", (n as u64).saturating_mul(4), 0);
                            obs::count("probe.server_initiated_shutdown");
                            if let Err(e) = c.shutdown(n).await {
                                log.borrow_mut().push(Ev::AcceptErr(format!("shutdown: {}", cout(&e))));
                                return;
                            }
                        }
                        Accepted::Done => {
                            obs::ev("app.accept_none", 0, 0);
                            log.borrow_mut().push(Ev::AcceptNone);
                            // keep the connection object until the run is over
                            std::future::pending::<()>().await;
                            drop(c);
                            return;
                        }
                        Accepted::Err(e) => {
                            log.borrow_mut().push(Ev::AcceptErr(cout(&e).to_string()));
                            return;
                        }
                        Accepted::Request(resolver) => {
                            let id = resolver.frame_stream.id().into_inner();
                            obs::ev("app.handed_out", id, 0);
                            log.borrow_mut().push(Ev::HandedOut(id));
                            let live = Rc::new(Live { id, log: log.clone() });
                            let ending = endings.get((id >> 2) as usize).cloned().unwrap_or(Ending::Normal);
                            let release = release.clone();
                            let batch = batch.clone();
                            exec::spawn(format!("req{id}"), async move {
                                let live = live; // dropped when this task (and the tasks it hands clones to) let go
                                if ending == Ending::DropResolver {
                                    for _ in 0..draw(4) {
                                        exec::yield_now().await;
                                    }
                                    drop(resolver);
                                    return;
                                }
                                if ending == Ending::NeverResolves {
                                    // resolution cannot complete; the application gives up when released
                                    let mut fut = Box::pin(resolver.resolve_request());
                                    std::future::poll_fn(|cx| {
                                        if std::future::Future::poll(fut.as_mut(), cx).is_ready() {
                                            return std::task::Poll::Ready(());
                                        }
                                        if release.is_open() {
                                            return std::task::Poll::Ready(());
                                        }
                                        release.register(cx);
                                        std::task::Poll::Pending
                                    })
                                    .await;
                                    drop(fut);
                                    return;
                                }
                                let Ok((_req, mut s)) = resolver.resolve_request().await else {
                                    return; // the failing call consumed the handle
                                };
                                match ending {
                                    Ending::SplitDrop => {
                                        let (tx, rx) = s.split();
                                        let l2 = live.clone();
                                        let d1 = draw(8);
                                        let d2 = draw(8);
                                        exec::spawn(format!("req{id}-tx"), async move {
                                            let _l = l2;
                                            for _ in 0..d1 {
                                                exec::yield_now().await;
                                            }
                                            drop(tx);
                                        });
                                        for _ in 0..d2 {
                                            exec::yield_now().await;
                                        }
                                        drop(rx);
                                    }
                                    Ending::Hold => {
                                        release.wait().await;
                                        drop(s);
                                    }
                                    Ending::Batch => batch.borrow_mut().push(Box::new((s, live.clone()))),
                                    _ => {
                                        let r = async {
                                            while s.recv_data().await?.is_some() {}
                                            s.recv_trailers().await?;
                                            s.send_response(http::Response::builder().status(200).body(()).unwrap()).await?;
                                            s.finish().await
                                        }
                                        .await;
                                        let _ = r;
                                        drop(s);
                                    }
                                }
                            });
                        }
                    }
                }
            });
        }
        let oracle = |log: &Vec<Ev>, phase: &str, held_open: bool, goaway_delivered: bool| -> Option<Violation> {
            let mut out: Vec<u64> = vec![];
            let mut ended: Vec<u64> = vec![];
            let mut none_seen = false;
            for e in log {
                match e {
                    Ev::HandedOut(id) => out.push(*id),
                    Ev::Ended(id) => ended.push(*id),
                    Ev::AcceptNone => {
                        none_seen = true;
                        let open: Vec<u64> = out.iter().filter(|i| !ended.contains(i)).cloned().collect();
                        if !open.is_empty() {
                            return Some(Violation::new("C09.accept_ended_while_request_in_progress", format!("accept() reported no more requests while requests {:?} were still in progress; log {:?}", open, log)).fact("phase", phase));
                        }
                    }
                    Ev::AcceptErr(e) => {
                        return Some(Violation::new("C09.accept_failed", format!("accept() failed with {e}; log {:?}", log)).fact("phase", phase));
                    }
                }
            }
            let open: Vec<u64> = out.iter().filter(|i| !ended.contains(i)).cloned().collect();
            if goaway_delivered && open.is_empty() && !none_seen {
                // which endings were never accounted for? (fact for the fingerprint: the kinds present)
                let mut kinds: Vec<String> = out.iter().filter_map(|id| endings.get((*id >> 2) as usize)).map(|e| format!("{e:?}")).collect();
                kinds.sort();
                kinds.dedup();
                let suspicious: Vec<&String> = kinds.iter().filter(|k| ["DropResolver", "FinFirst", "ResetBeforeHeaders", "NeverResolves"].contains(&k.as_str())).collect();
                return Some(
                    Violation::new("C09.accept_pending_after_drain", format!("the peer's GOAWAY was delivered and every request handed out has ended ({:?}), but accept() is still pending; endings {:?}; log {:?}", out, kinds, log))
                        .fact("phase", phase)
                        .fact("unaccounted_kind", if suspicious.is_empty() { "none".to_string() } else { suspicious.iter().map(|s| s.as_str()).collect::<Vec<_>>().join("+") }),
                );
            }
            if held_open && none_seen {
                // covered by the in-order scan above (open non-empty at AcceptNone)
            }
            None
        };
        let check_panic = |ex: &Exec| -> Option<RunOut> {
            ex.panic.as_ref().map(|p| {
                if p.in_harness() {
                    RunOut { harness_error: Some(format!("harness panic: {} at {}", p.msg, p.loc)), ..Default::default() }
                } else {
                    RunOut::fail(Violation::new("C09.panic", format!("h3 panicked in task {}: {} at {}", p.task, p.msg, p.loc)).fact("at", p.loc.rsplit('/').next().unwrap_or("")))
                }
            })
        };
        let stop = ex.run(&mut NetWorld(net.clone()));
        if let Some(r) = check_panic(&ex) {
            return r;
        }
        if stop == Stop::StepCap {
            return RunOut::fail(Violation::new("C09.step_cap", "no quiescence".to_string()));
        }
        obs::note(|| format!("endings {:?} goaway at script position {goaway_pos}; log after phase 1 {:?}", endings, log.borrow()));
        let held = endings.iter().any(|e| matches!(e, Ending::Hold | Ending::NeverResolves | Ending::Batch));
        if let Some(v) = oracle(&log.borrow(), "1", held, true) {
            return RunOut::fail(v);
        }
        // phase 2: the application lets go of what it was holding
        obs::ev("phase.release", 0, 0);
        release.open();
        batch.borrow_mut().clear();
        let stop = ex.run(&mut NetWorld(net.clone()));
        if let Some(r) = check_panic(&ex) {
            return r;
        }
        if stop == Stop::StepCap {
            return RunOut::fail(Violation::new("C09.step_cap", "no quiescence".to_string()));
        }
        obs::note(|| format!("log after phase 2 {:?}", log.borrow()));
        if let Some(v) = oracle(&log.borrow(), "2", false, true) {
            return RunOut::fail(v);
        }
        for e in &endings {
            match e {
                Ending::DropResolver => obs::count("probe.resolver_dropped"),
                Ending::FinFirst => obs::count("probe.fin_before_headers"),
                Ending::ResetBeforeHeaders => obs::count("probe.reset_before_headers"),
                Ending::SplitDrop => obs::count("probe.split_halves_dropped_separately"),
                Ending::Hold | Ending::NeverResolves | Ending::Batch => obs::count("probe.request_held_across_goaway"),
                _ => {}
            }
        }
        let handed = log.borrow().iter().filter(|e| matches!(e, Ev::HandedOut(_))).count();
        let mut out = RunOut::ok(handed >= 1);
        if ctx.want_sample {
            out.sample = Some(json!({"endings": endings.iter().map(|e| format!("{e:?}")).collect::<Vec<_>>(), "goaway_script_position": goaway_pos, "log": format!("{:?}", log.borrow())}));
        }
        let _ = chance(0, 1);
        out
    }
}

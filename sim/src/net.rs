//! SimQuic: an in-memory QUIC-like transport implementing the `h3::quic` traits (and the datagram
//! extension traits), both ends over one shared state object. Every decision — chunk sizes, write
//! acceptance, pends, delivery order, FIN/RESET/STOP timing, stream credit — is drawn from the
//! choice source. A scripted peer manipulates the same state through the `raw_*` functions.
use crate::choice::{draw, draw_size, draw_usize};
use crate::exec::World;
use crate::obs;
use bytes::{Buf, Bytes};
use h3::quic::{self, ConnectionErrorIncoming, StreamErrorIncoming, StreamId, WriteBuf};
use std::collections::{BTreeMap, VecDeque};
use std::sync::{Arc, Mutex};
use std::task::{Context, Poll, Waker};

pub const CLIENT: u8 = 0;
pub const SERVER: u8 = 1;

// ------------------------------------------------------------------ application buffer type

/// The `B: Buf` h3 is instantiated with. `Multi` is deliberately awkward: `chunk()` is shorter than
/// `remaining()`.
#[derive(Debug, Clone)]
pub enum SimBuf {
    One(Bytes),
    Multi(VecDeque<Bytes>),
}
impl SimBuf {
    pub fn one(b: impl Into<Bytes>) -> Self {
        SimBuf::One(b.into())
    }
    /// split `data` at the given cut points into a multi-chunk buffer
    pub fn multi(data: &[u8], cuts: &[usize]) -> Self {
        let mut v = VecDeque::new();
        let mut last = 0;
        for &c in cuts {
            let c = c.min(data.len());
            if c > last {
                v.push_back(Bytes::copy_from_slice(&data[last..c]));
                last = c;
            }
        }
        if data.len() > last {
            v.push_back(Bytes::copy_from_slice(&data[last..]));
        }
        SimBuf::Multi(v)
    }
}
impl Buf for SimBuf {
    fn remaining(&self) -> usize {
        match self {
            SimBuf::One(b) => b.remaining(),
            SimBuf::Multi(v) => v.iter().map(|b| b.len()).sum(),
        }
    }
    fn chunk(&self) -> &[u8] {
        match self {
            SimBuf::One(b) => b.chunk(),
            SimBuf::Multi(v) => v.front().map(|b| b.as_ref()).unwrap_or(&[]),
        }
    }
    fn advance(&mut self, mut cnt: usize) {
        match self {
            SimBuf::One(b) => b.advance(cnt),
            SimBuf::Multi(v) => {
                while cnt > 0 {
                    let f = v.front_mut().expect("advance past end of SimBuf");
                    if f.len() > cnt {
                        f.advance(cnt);
                        cnt = 0;
                    } else {
                        cnt -= f.len();
                        v.pop_front();
                    }
                }
            }
        }
    }
}

// ------------------------------------------------------------------ configuration (drawn per run)

#[derive(Clone, Debug)]
pub struct NetCfg {
    /// 0 whole, 1 mixed sizes, 2 tiny (1..3 bytes) while the stream is short, 3 frame-boundary biased,
    /// 4 trickle (1..2 bytes at a time however long the stream; only where a check asks for it)
    pub chunk_mode: u8,
    /// 0 = writes never pend; else a write pends with probability 1/den per acceptance step
    pub write_pend_den: u32,
    /// writes are accepted in drawn partial sizes (else whole chunk)
    pub write_partial: bool,
    /// 0 FIN rides with the last bytes, 1 drawn, 2 always its own event
    pub fin_mode: u8,
    pub coalesce_reads: bool,
    /// receive buffers handed to h3 may have two segments (`quic::RecvStream::Buf` is any `Buf`: a chain, a ring
    /// buffer that wraps): one read in two then is segmented at a drawn point
    pub segmented_reads: bool,
    pub in_order_accept: bool,
    /// 0 nothing, 1 implicit RESET(0), 2 implicit FIN when a send handle is dropped unfinished
    pub drop_send: u8,
    /// implicit STOP_SENDING(0) when a receive handle is dropped
    pub drop_recv_stops: bool,
    pub reset_discards_rx: bool,
    /// stream credit is granted by scheduler events when someone waits (else only by the scenario)
    pub auto_grant: bool,
    pub max_datagram: usize,
    /// a reset is reported to the reader once; later reads answer end of stream (what Quinn does, and what the
    /// contract of quic::RecvStream::poll_data allows: `None` once no more data will be received)
    pub reset_then_end: bool,
    /// per side: the n-th poll_open_send is refused once with a stream-level error (set by a check, never drawn here)
    pub refuse_uni_open_at: [Option<u32>; 2],
}
impl Default for NetCfg {
    fn default() -> Self {
        NetCfg {
            chunk_mode: 0,
            write_pend_den: 0,
            write_partial: false,
            fin_mode: 0,
            coalesce_reads: false,
            segmented_reads: false,
            in_order_accept: true,
            drop_send: 0,
            drop_recv_stops: false,
            reset_discards_rx: true,
            auto_grant: true,
            max_datagram: 1200,
            reset_then_end: false,
            refuse_uni_open_at: [None, None],
        }
    }
}
impl NetCfg {
    /// swarm-style: every knob drawn; choice 0 everywhere is the plain transport
    pub fn drawn() -> Self {
        NetCfg {
            chunk_mode: draw(4) as u8,
            write_pend_den: [0, 4, 2, 8][draw(4) as usize],
            write_partial: draw(2) == 1,
            fin_mode: draw(3) as u8,
            coalesce_reads: draw(4) == 1,
            segmented_reads: draw(3) == 1,
            in_order_accept: draw(3) != 1,
            drop_send: draw(3) as u8,
            drop_recv_stops: draw(2) == 1,
            reset_discards_rx: draw(2) == 0,
            auto_grant: true,
            max_datagram: 1200,
            reset_then_end: draw(3) == 2,
            refuse_uni_open_at: [None, None],
        }
    }
}

// ------------------------------------------------------------------ state

#[derive(Clone, Debug, PartialEq)]
pub enum ConnFault {
    AppClose(u64),
    Timeout,
    Internal(String),
    Undefined,
    LocallyClosed,
}
#[derive(Debug)]
pub struct SimErr(pub &'static str);
impl std::fmt::Display for SimErr {
    fn fmt(&self, f: &mut std::fmt::Formatter<'_>) -> std::fmt::Result {
        f.write_str(self.0)
    }
}
impl std::error::Error for SimErr {}
impl ConnFault {
    pub fn to_h3(&self) -> ConnectionErrorIncoming {
        match self {
            ConnFault::AppClose(c) => ConnectionErrorIncoming::ApplicationClose { error_code: *c },
            ConnFault::Timeout => ConnectionErrorIncoming::Timeout,
            ConnFault::Internal(s) => ConnectionErrorIncoming::InternalError(s.clone()),
            ConnFault::Undefined => ConnectionErrorIncoming::Undefined(Arc::new(SimErr("simulated transport error"))),
            ConnFault::LocallyClosed => ConnectionErrorIncoming::Undefined(Arc::new(SimErr("locally closed"))),
        }
    }
    fn to_stream(&self) -> StreamErrorIncoming {
        StreamErrorIncoming::ConnectionErrorIncoming { connection_error: self.to_h3() }
    }
}

/// One direction of a stream, keyed by (stream id, sending side).
#[derive(Default, Debug)]
pub struct Dir {
    pub sent: Vec<u8>,
    pub delivered: usize,
    pub rx: VecDeque<Bytes>,
    pub consumed: usize,
    pub fin_sent: bool,
    pub fin_delivered: bool,
    pub fin_read: bool,
    pub reset_sent: Option<u64>,
    pub reset_delivered: bool,
    /// STOP_SENDING issued by the receiving side
    pub stop_sent: Option<u64>,
    pub stop_delivered: bool,
    pub rx_waker: Option<Waker>,
    pub tx_waker: Option<Waker>,
    pub tx_blocked: bool,
    pub announced: bool,
    pub held: bool,
    /// writes never accepted (stalled peer) until released
    pub tx_stalled: bool,
    pub stop_calls: Vec<u64>,
    pub reset_calls: Vec<u64>,
    pub finish_calls: u32,
    pub send_dropped: bool,
    pub recv_dropped: bool,
    /// frame-boundary marks for boundary-biased chunking (lazy scan)
    scan_off: usize,
    marks: Vec<usize>,
    /// inject a one-off stream-level Unknown error on the next read / write
    pub inject_read_err: bool,
    pub inject_write_err: bool,
    /// once everything delivered has been read, every read of this direction reports this connection-level
    /// error although the connection-level calls of the side (accept, open) report nothing yet: a transport
    /// is free to tell a stream first (h3-quinn does so for its own InternalError)
    pub read_conn_err: Option<ConnFault>,
    pub deliveries: u32,
    pub first_frame_seen: bool,
    /// reads answered after the stream had reported its end (FIN or RESET)
    pub terminal_reads: u32,
    /// the reset has been reported to the reader (see NetCfg::reset_then_end)
    pub reset_reported: bool,
}

#[derive(Default, Debug)]
pub struct SideState {
    pub accept_uni: VecDeque<u64>,
    pub accept_bi: VecDeque<u64>,
    pub accept_uni_waker: Option<Waker>,
    pub accept_bi_waker: Option<Waker>,
    pub next_uni: u64,
    pub next_bi: u64,
    /// None = unlimited
    pub uni_credit: Option<u64>,
    pub bi_credit: Option<u64>,
    pub open_wakers: Vec<Waker>,
    pub open_waiting_uni: bool,
    pub open_waiting_bi: bool,
    pub fault: Option<ConnFault>,
    pub pending_close: Option<u64>,
    pub dgram_rx: VecDeque<Bytes>,
    pub dgram_waker: Option<Waker>,
    pub opened_uni: Vec<u64>,
    pub opened_bi: Vec<u64>,
    /// calls of poll_open_send that got past the credit check so far
    pub uni_open_attempts: u32,
    /// the n-th such call is refused once with a stream-level error although the connection is fine (a transport
    /// is free to refuse a stream; h3 treats a refused QPACK or grease stream as non-fatal)
    pub refuse_uni_open_at: Option<u32>,
}

#[derive(Clone, Debug)]
enum Ev {
    Deliver(u64, u8),
    Writable(u64, u8),
    StopDeliver(u64, u8),
    Grant(u8, bool),
    CloseDeliver(u8),
    Dgram(u8),
}

#[derive(Default)]
pub struct Net {
    pub cfg: NetCfg,
    pub dirs: BTreeMap<(u64, u8), Dir>,
    pub sides: [SideState; 2],
    /// every `close(code, reason)` call in order: (side, code, reason)
    pub closes: Vec<(u8, u64, String)>,
    pub dgram_flight: [VecDeque<Bytes>; 2], // in flight towards side i
    pub dgram_sent: [Vec<Vec<u8>>; 2],      // log of datagrams sent by side i
    pub dgram_faults: bool,
    pub contract: Vec<String>,
    /// transport calls answered with a terminal error (fault, stop, closed stream); see `runaway!`
    pub terminal_answers: u32,
    pub events: u64,
    enabled: Vec<Ev>,
}

pub type Shared = Arc<Mutex<Net>>;

thread_local! {
    /// harness probe called (with the stream id) when h3 hands its first frame on a stream to the transport (send_data)
    static FIRST_WRITE_HOOK: std::cell::RefCell<Option<Box<dyn Fn(u64)>>> = const { std::cell::RefCell::new(None) };
}
pub fn set_first_write_hook(h: Option<Box<dyn Fn(u64)>>) {
    FIRST_WRITE_HOOK.with(|x| *x.borrow_mut() = h);
}

fn wake(w: &mut Option<Waker>) {
    if let Some(w) = w.take() {
        w.wake()
    }
}

pub fn is_uni(id: u64) -> bool {
    id & 2 != 0
}
pub fn initiator(id: u64) -> u8 {
    (id & 1) as u8
}

/// offsets (relative to `from`) of frame-structure marks in an HTTP/3 frame sequence: header start,
/// payload start, payload end. Tolerates garbage (stops scanning).
fn scan_marks(buf: &[u8], off: &mut usize, marks: &mut Vec<usize>, uni_prefix: bool) {
    use crate::refs::varint;
    if uni_prefix && *off == 0 {
        match varint::decode(buf) {
            Some((_, n)) => {
                *off = n;
                marks.push(n);
            }
            None => return,
        }
    }
    loop {
        if *off >= buf.len() {
            return;
        }
        let rest = &buf[*off..];
        let Some((_ty, n1)) = varint::decode(rest) else { return };
        let Some((len, n2)) = varint::decode(&rest[n1..]) else { return };
        let hdr_end = *off + n1 + n2;
        let Some(pay_end) = (hdr_end as u64).checked_add(len) else { return };
        if pay_end > (1 << 40) {
            return;
        }
        marks.push(hdr_end);
        marks.push(pay_end as usize);
        if pay_end as usize > buf.len() {
            // not fully written yet; re-scan from here later is not needed: marks already known
            *off = pay_end as usize;
            return;
        }
        *off = pay_end as usize;
        if *off >= buf.len() {
            return;
        }
    }
}

impl Net {
    pub fn new(cfg: NetCfg) -> Shared {
        let refuse = cfg.refuse_uni_open_at;
        let mut n = Net { cfg, ..Default::default() };
        n.sides[0].refuse_uni_open_at = refuse[0];
        n.sides[1].refuse_uni_open_at = refuse[1];
        Arc::new(Mutex::new(n))
    }
    pub fn dir(&mut self, id: u64, sender: u8) -> &mut Dir {
        self.dirs.entry((id, sender)).or_default()
    }
    pub fn dir_ref(&self, id: u64, sender: u8) -> Option<&Dir> {
        self.dirs.get(&(id, sender))
    }
    pub fn effective_close(&self) -> Option<(u8, u64)> {
        self.closes.first().map(|c| (c.0, c.1))
    }
    pub fn closes_by(&self, side: u8) -> Vec<u64> {
        self.closes.iter().filter(|c| c.0 == side).map(|c| c.1).collect()
    }

    fn wake_side(&mut self, side: u8) {
        let s = &mut self.sides[side as usize];
        wake(&mut s.accept_uni_waker);
        wake(&mut s.accept_bi_waker);
        wake(&mut s.dgram_waker);
        for w in s.open_wakers.drain(..) {
            w.wake()
        }
        for ((id, sender), d) in self.dirs.iter_mut() {
            let _ = id;
            if *sender == side {
                wake(&mut d.tx_waker);
                d.tx_blocked = false;
            } else {
                wake(&mut d.rx_waker);
            }
            // bidi: both directions have an endpoint on each side
        }
    }

    /// a connection-level condition becomes visible to `side`
    pub fn set_fault(&mut self, side: u8, f: ConnFault) {
        if self.sides[side as usize].fault.is_none() {
            self.sides[side as usize].fault = Some(f);
        }
        self.wake_side(side);
    }

    fn do_close(&mut self, side: u8, code: u64, reason: &[u8]) {
        obs::ev("close", side as u64, code);
        self.closes.push((side, code, String::from_utf8_lossy(reason).into_owned()));
        if self.sides[side as usize].fault.is_none() {
            self.sides[side as usize].fault = Some(ConnFault::LocallyClosed);
            self.wake_side(side);
        }
        let peer = 1 - side as usize;
        if self.sides[peer].fault.is_none() && self.sides[peer].pending_close.is_none() {
            self.sides[peer].pending_close = Some(code);
        }
    }

    fn announce(&mut self, id: u64, sender: u8) {
        let peer = 1 - sender;
        if initiator(id) != sender {
            return; // the receiving side opened this stream itself
        }
        let uni = is_uni(id);
        let mut to_announce = vec![];
        if self.cfg.in_order_accept {
            // Quinn-like: lower-numbered streams of the same kind surface first (possibly empty)
            let mut k = id & 3;
            while k < id {
                let known = self.dirs.get(&(k, sender)).map(|d| d.announced).unwrap_or(false);
                if !known {
                    to_announce.push(k);
                }
                k += 4;
            }
        }
        to_announce.push(id);
        for k in to_announce {
            let d = self.dir(k, sender);
            if d.announced {
                continue;
            }
            d.announced = true;
            if !uni {
                self.dir(k, peer);
            }
            let s = &mut self.sides[sender as usize];
            if uni {
                s.next_uni = s.next_uni.max((k >> 2) + 1)
            } else {
                s.next_bi = s.next_bi.max((k >> 2) + 1)
            }
            let p = &mut self.sides[peer as usize];
            if uni {
                p.accept_uni.push_back(k);
                wake(&mut p.accept_uni_waker);
            } else {
                p.accept_bi.push_back(k);
                wake(&mut p.accept_bi_waker);
            }
            obs::ev("announce", k, 0);
        }
    }

    fn compute_enabled(&mut self) {
        self.enabled.clear();
        for (&(id, s), d) in self.dirs.iter() {
            let recv_dead = false;
            if !d.held
                && !recv_dead
                && (d.sent.len() > d.delivered || (d.fin_sent && !d.fin_delivered && d.reset_sent.is_none()) || (d.reset_sent.is_some() && !d.reset_delivered))
            {
                self.enabled.push(Ev::Deliver(id, s));
            }
            if d.tx_blocked && !d.tx_stalled {
                self.enabled.push(Ev::Writable(id, s));
            }
            if d.stop_sent.is_some() && !d.stop_delivered && !d.held {
                self.enabled.push(Ev::StopDeliver(id, s));
            }
        }
        for side in 0..2u8 {
            let st = &self.sides[side as usize];
            if self.cfg.auto_grant {
                if st.open_waiting_uni {
                    self.enabled.push(Ev::Grant(side, true));
                }
                if st.open_waiting_bi {
                    self.enabled.push(Ev::Grant(side, false));
                }
            }
            if st.pending_close.is_some() && st.fault.is_none() {
                self.enabled.push(Ev::CloseDeliver(side));
            }
            if !self.dgram_flight[side as usize].is_empty() {
                self.enabled.push(Ev::Dgram(side));
            }
        }
    }

    fn chunk_size(&mut self, id: u64, s: u8) -> usize {
        let mode = self.cfg.chunk_mode;
        let d = self.dirs.get_mut(&(id, s)).unwrap();
        let avail = d.sent.len() - d.delivered;
        match mode {
            0 => avail,
            1 => draw_size(avail),
            2 => {
                if d.sent.len() <= 96 {
                    (1 + draw_usize(3)).min(avail)
                } else {
                    draw_size(avail)
                }
            }
            4 => (1 + draw_usize(2)).min(avail), // trickle: one or two bytes at a time, however long the stream
            _ => {
                // boundary biased
                let uni = is_uni(id);
                scan_marks(&d.sent, &mut d.scan_off, &mut d.marks, uni);
                let pos = d.delivered;
                let next = d.marks.iter().copied().find(|&m| m > pos);
                match (draw(8), next) {
                    (0, _) => avail,
                    (1, Some(m)) => (m - pos).min(avail),
                    (2, Some(m)) => (m - pos).saturating_sub(1).max(1).min(avail),
                    (3, Some(m)) => (m - pos + 1).min(avail),
                    (4, _) => 1,
                    (5, _) => 2.min(avail),
                    (6, _) => (1 + draw_usize(avail.min(64))).min(avail),
                    _ => draw_size(avail),
                }
            }
        }
        .max(1)
        .min(avail)
    }

    fn fire_ev(&mut self, ev: Ev) {
        self.events += 1;
        match ev {
            Ev::Deliver(id, s) => {
                let fin_mode = self.cfg.fin_mode;
                let discard = self.cfg.reset_discards_rx;
                let d = self.dirs.get_mut(&(id, s)).unwrap();
                let avail = d.sent.len() - d.delivered;
                if d.reset_sent.is_some() && (avail == 0 || draw(2) == 0) {
                    // RESET arrives, possibly overtaking undelivered bytes
                    d.reset_delivered = true;
                    if avail > 0 {
                        obs::count("net.reset_overtook_bytes");
                    }
                    d.delivered = d.sent.len();
                    if discard && !d.rx.is_empty() {
                        d.rx.clear();
                        obs::count("net.reset_discarded_buffered");
                    }
                    obs::ev("deliver_reset", id, d.reset_sent.unwrap());
                    obs::count("net.reset_delivered");
                    wake(&mut d.rx_waker);
                    self.announce(id, s);
                    return;
                }
                if avail > 0 {
                    let k = self.chunk_size(id, s);
                    let d = self.dirs.get_mut(&(id, s)).unwrap();
                    let chunk = Bytes::copy_from_slice(&d.sent[d.delivered..d.delivered + k]);
                    d.delivered += k;
                    d.deliveries += 1;
                    d.rx.push_back(chunk);
                    obs::ev("deliver", id, k as u64);
                    obs::count("net.chunk_delivered");
                    if k == 1 {
                        obs::count("net.chunk_1byte");
                    }
                    if d.fin_sent && d.reset_sent.is_none() && d.delivered == d.sent.len() {
                        let ride = match fin_mode {
                            0 => true,
                            1 => draw(2) == 0,
                            _ => false,
                        };
                        if ride {
                            d.fin_delivered = true;
                            obs::ev("deliver_fin_with_data", id, 0);
                        }
                    }
                } else {
                    d.fin_delivered = true;
                    obs::ev("deliver_fin", id, 0);
                    obs::count("net.fin_own_event");
                }
                let d = self.dirs.get_mut(&(id, s)).unwrap();
                wake(&mut d.rx_waker);
                self.announce(id, s);
            }
            Ev::Writable(id, s) => {
                let d = self.dirs.get_mut(&(id, s)).unwrap();
                d.tx_blocked = false;
                obs::ev("writable", id, 0);
                wake(&mut d.tx_waker);
            }
            Ev::StopDeliver(id, s) => {
                let d = self.dirs.get_mut(&(id, s)).unwrap();
                d.stop_delivered = true;
                d.tx_blocked = false;
                obs::ev("deliver_stop", id, d.stop_sent.unwrap());
                obs::count("net.stop_delivered");
                wake(&mut d.tx_waker);
            }
            Ev::Grant(side, uni) => {
                let st = &mut self.sides[side as usize];
                if uni {
                    st.uni_credit = st.uni_credit.map(|c| c + 1);
                    st.open_waiting_uni = false;
                } else {
                    st.bi_credit = st.bi_credit.map(|c| c + 1);
                    st.open_waiting_bi = false;
                }
                obs::ev("grant_credit", side as u64, uni as u64);
                obs::count("net.credit_granted_late");
                for w in st.open_wakers.drain(..) {
                    w.wake()
                }
            }
            Ev::CloseDeliver(side) => {
                let code = self.sides[side as usize].pending_close.take().unwrap();
                obs::ev("deliver_close", side as u64, code);
                self.set_fault(side, ConnFault::AppClose(code));
            }
            Ev::Dgram(side) => {
                let q = &mut self.dgram_flight[side as usize];
                let faults = self.dgram_faults;
                // choose which datagram (reordering), and its fate
                let idx = if faults { draw_usize(q.len().min(4)) } else { 0 };
                if idx > 0 {
                    obs::count("net.dgram_reordered");
                }
                let dg = q.remove(idx).unwrap();
                let fate = if faults { draw(6) } else { 0 };
                match fate {
                    4 => {
                        obs::count("net.dgram_dropped");
                        obs::ev("dgram_drop", side as u64, dg.len() as u64);
                    }
                    5 => {
                        obs::count("net.dgram_duplicated");
                        obs::ev("dgram_dup", side as u64, dg.len() as u64);
                        let st = &mut self.sides[side as usize];
                        st.dgram_rx.push_back(dg.clone());
                        st.dgram_rx.push_back(dg);
                        wake(&mut st.dgram_waker);
                    }
                    _ => {
                        obs::ev("dgram_deliver", side as u64, dg.len() as u64);
                        obs::count("net.dgram_delivered");
                        let st = &mut self.sides[side as usize];
                        st.dgram_rx.push_back(dg);
                        wake(&mut st.dgram_waker);
                    }
                }
            }
        }
    }

    // ---------------------------------------------------------------- raw (scripted peer) API

    /// Open a stream with an explicit id as `side` (the id's initiator bit must equal `side`).
    pub fn raw_open(&mut self, id: u64) {
        let side = initiator(id);
        self.dir(id, side);
        if !is_uni(id) {
            self.dir(id, 1 - side);
        }
        let s = &mut self.sides[side as usize];
        if is_uni(id) {
            s.next_uni = s.next_uni.max((id >> 2) + 1);
            s.opened_uni.push(id);
        } else {
            s.next_bi = s.next_bi.max((id >> 2) + 1);
            s.opened_bi.push(id);
        }
    }
    pub fn raw_open_next(&mut self, side: u8, uni: bool) -> u64 {
        let s = &self.sides[side as usize];
        let idx = if uni { s.next_uni } else { s.next_bi };
        let id = (idx << 2) | ((uni as u64) << 1) | side as u64;
        self.raw_open(id);
        id
    }
    pub fn raw_write(&mut self, id: u64, side: u8, data: &[u8]) {
        obs::ev("raw_write", id, data.len() as u64);
        self.dir(id, side).sent.extend_from_slice(data);
    }
    pub fn raw_fin(&mut self, id: u64, side: u8) {
        obs::ev("raw_fin", id, 0);
        self.dir(id, side).fin_sent = true;
    }
    pub fn raw_reset(&mut self, id: u64, side: u8, code: u64) {
        obs::ev("raw_reset", id, code);
        let d = self.dir(id, side);
        if d.reset_sent.is_none() && !d.fin_delivered {
            d.reset_sent = Some(code);
        }
    }
    /// `side` (the receiver of direction (id, 1-side)) asks the sender to stop
    pub fn raw_stop(&mut self, id: u64, side: u8, code: u64) {
        obs::ev("raw_stop", id, code);
        let d = self.dir(id, 1 - side);
        if d.stop_sent.is_none() {
            d.stop_sent = Some(code);
        }
    }
    /// reads of the direction `sender` -> peer on stream `id` report the connection-level error `f` from now on
    pub fn raw_stream_conn_error(&mut self, id: u64, sender: u8, f: ConnFault) {
        obs::ev("raw_stream_conn_error", id, 0);
        let d = self.dir(id, sender);
        d.read_conn_err = Some(f);
        wake(&mut d.rx_waker);
    }
    pub fn raw_close(&mut self, side: u8, code: u64) {
        self.do_close(side, code, b"raw peer close");
    }
    pub fn raw_datagram(&mut self, from: u8, data: &[u8]) {
        obs::ev("raw_dgram", from as u64, data.len() as u64);
        self.dgram_sent[from as usize].push(data.to_vec());
        self.dgram_flight[1 - from as usize].push_back(Bytes::copy_from_slice(data));
    }
    pub fn hold(&mut self, id: u64, sender: u8, held: bool) {
        let d = self.dir(id, sender);
        d.held = held;
    }
    pub fn stall_writes(&mut self, id: u64, sender: u8, stalled: bool) {
        let d = self.dir(id, sender);
        d.tx_stalled = stalled;
    }
    pub fn grant(&mut self, side: u8, uni: bool, n: u64) {
        let st = &mut self.sides[side as usize];
        if uni {
            st.uni_credit = st.uni_credit.map(|c| c + n);
        } else {
            st.bi_credit = st.bi_credit.map(|c| c + n);
        }
        for w in st.open_wakers.drain(..) {
            w.wake()
        }
    }
    /// bytes written so far by `sender` on stream `id`
    pub fn sent(&self, id: u64, sender: u8) -> &[u8] {
        self.dirs.get(&(id, sender)).map(|d| d.sent.as_slice()).unwrap_or(&[])
    }
    /// ids of streams on which `sender` has a sending direction, in id order
    pub fn streams_of(&self, sender: u8) -> Vec<u64> {
        self.dirs.keys().filter(|k| k.1 == sender).map(|k| k.0).collect()
    }
    /// true if nothing remains in flight anywhere (all written bytes and signals delivered)
    pub fn drained(&self) -> bool {
        self.dirs.values().all(|d| d.sent.len() == d.delivered && (!d.fin_sent || d.fin_delivered || d.reset_sent.is_some()) && (d.reset_sent.is_none() || d.reset_delivered))
    }
}

pub struct NetWorld(pub Shared);
impl World for NetWorld {
    fn count_enabled(&mut self) -> usize {
        let mut n = self.0.lock().unwrap();
        n.compute_enabled();
        n.enabled.len()
    }
    fn fire(&mut self, idx: usize) {
        let mut n = self.0.lock().unwrap();
        let ev = n.enabled[idx].clone();
        n.fire_ev(ev);
    }
}

// ------------------------------------------------------------------ trait implementations

pub struct SimConn {
    pub net: Shared,
    pub side: u8,
}
#[derive(Clone)]
pub struct SimOpen {
    pub net: Shared,
    pub side: u8,
}
pub struct SimSend {
    net: Shared,
    pub id: u64,
    side: u8,
    writing: Option<WriteBuf<SimBuf>>,
}
pub struct SimRecv {
    net: Shared,
    pub id: u64,
    side: u8,
}
pub struct SimBidi {
    pub send: SimSend,
    pub recv: SimRecv,
}

pub fn pair(cfg: NetCfg) -> (SimConn, SimConn, Shared) {
    let n = Net::new(cfg);
    (SimConn { net: n.clone(), side: CLIENT }, SimConn { net: n.clone(), side: SERVER }, n)
}
pub fn conn(net: &Shared, side: u8) -> SimConn {
    SimConn { net: net.clone(), side }
}

/// A caller that keeps repeating a call whose answer is final (an error that will never change) without ever
/// returning is spinning inside one poll, which no step cap can interrupt. Count such answers per connection and
/// break out with a panic the executors attribute to the caller (marker RUNAWAY). The guard is released first so
/// that the mutex is not poisoned.
macro_rules! runaway {
    ($n:ident, $what:expr) => {{
        $n.terminal_answers += 1;
        if $n.terminal_answers > 200_000 {
            drop($n);
            panic!("RUNAWAY: {} was answered with the same final error 200000 times (busy loop in the caller)", $what);
        }
    }};
}

fn poll_open(net: &Shared, side: u8, uni: bool, cx: &mut Context<'_>) -> Poll<Result<u64, StreamErrorIncoming>> {
    let mut n = net.lock().unwrap();
    if let Some(f) = n.sides[side as usize].fault.clone() {
        runaway!(n, "poll_open");
        return Poll::Ready(Err(f.to_stream()));
    }
    let st = &mut n.sides[side as usize];
    let credit = if uni { &mut st.uni_credit } else { &mut st.bi_credit };
    if let Some(c) = credit {
        if *c == 0 {
            if uni {
                st.open_waiting_uni = true
            } else {
                st.open_waiting_bi = true
            }
            st.open_wakers.push(cx.waker().clone());
            obs::count("net.open_pended");
            obs::ev("open_pend", side as u64, uni as u64);
            return Poll::Pending;
        }
        *c -= 1;
    }
    let idx = if uni { st.next_uni } else { st.next_bi };
    if uni {
        st.uni_open_attempts += 1;
        if st.refuse_uni_open_at == Some(st.uni_open_attempts - 1) {
            st.refuse_uni_open_at = None;
            obs::count("fault.uni_open_refused_once");
            return Poll::Ready(Err(StreamErrorIncoming::Unknown(Box::new(SimErr("stream refused")))));
        }
    }
    let opened_so_far = if uni { st.opened_uni.len() } else { st.opened_bi.len() };
    if opened_so_far >= if uni { 256 } else { 4096 } {
        // an endpoint that opens streams without end (each one takes an id and the peer's credit): refuse, record
        n.contract.push(format!("side {side}: more than {} {} streams opened on one connection (streams opened without end)", opened_so_far, if uni { "unidirectional" } else { "bidirectional" }));
        return Poll::Ready(Err(StreamErrorIncoming::Unknown(Box::new(SimErr("runaway open")))));
    }
    if uni {
        st.next_uni += 1
    } else {
        st.next_bi += 1
    }
    let id = (idx << 2) | ((uni as u64) << 1) | side as u64;
    if uni {
        st.opened_uni.push(id)
    } else {
        st.opened_bi.push(id)
    }
    n.dir(id, side);
    if !uni {
        n.dir(id, 1 - side);
    }
    obs::ev("open", id, 0);
    Poll::Ready(Ok(id))
}

fn mk_bidi(net: &Shared, id: u64, side: u8) -> SimBidi {
    SimBidi { send: SimSend { net: net.clone(), id, side, writing: None }, recv: SimRecv { net: net.clone(), id, side } }
}

macro_rules! opener {
    ($t:ty) => {
        impl quic::OpenStreams<SimBuf> for $t {
            type BidiStream = SimBidi;
            type SendStream = SimSend;
            fn poll_open_bidi(&mut self, cx: &mut Context<'_>) -> Poll<Result<SimBidi, StreamErrorIncoming>> {
                poll_open(&self.net, self.side, false, cx).map(|r| r.map(|id| mk_bidi(&self.net, id, self.side)))
            }
            fn poll_open_send(&mut self, cx: &mut Context<'_>) -> Poll<Result<SimSend, StreamErrorIncoming>> {
                poll_open(&self.net, self.side, true, cx).map(|r| r.map(|id| SimSend { net: self.net.clone(), id, side: self.side, writing: None }))
            }
            fn close(&mut self, code: h3::error::Code, reason: &[u8]) {
                self.net.lock().unwrap().do_close(self.side, code.value(), reason);
            }
        }
    };
}
opener!(SimConn);
opener!(SimOpen);

impl quic::Connection<SimBuf> for SimConn {
    type RecvStream = SimRecv;
    type OpenStreams = SimOpen;
    fn poll_accept_recv(&mut self, cx: &mut Context<'_>) -> Poll<Result<SimRecv, ConnectionErrorIncoming>> {
        let mut n = self.net.lock().unwrap();
        let st = &mut n.sides[self.side as usize];
        if let Some(id) = st.accept_uni.pop_front() {
            obs::ev("accept_uni", id, 0);
            return Poll::Ready(Ok(SimRecv { net: self.net.clone(), id, side: self.side }));
        }
        if let Some(f) = st.fault.clone() {
            runaway!(n, "poll_accept_recv");
            return Poll::Ready(Err(f.to_h3()));
        }
        st.accept_uni_waker = Some(cx.waker().clone());
        Poll::Pending
    }
    fn poll_accept_bidi(&mut self, cx: &mut Context<'_>) -> Poll<Result<SimBidi, ConnectionErrorIncoming>> {
        let mut n = self.net.lock().unwrap();
        let st = &mut n.sides[self.side as usize];
        if let Some(id) = st.accept_bi.pop_front() {
            obs::ev("accept_bi", id, 0);
            return Poll::Ready(Ok(mk_bidi(&self.net, id, self.side)));
        }
        if let Some(f) = st.fault.clone() {
            runaway!(n, "poll_accept_bidi");
            return Poll::Ready(Err(f.to_h3()));
        }
        st.accept_bi_waker = Some(cx.waker().clone());
        Poll::Pending
    }
    fn opener(&self) -> SimOpen {
        SimOpen { net: self.net.clone(), side: self.side }
    }
}

impl SimSend {
    fn accept_bytes<D: Buf>(net: &Shared, id: u64, side: u8, w: &mut D, cx: &mut Context<'_>, one_shot: bool) -> Poll<Result<usize, StreamErrorIncoming>> {
        // (never hold the net lock while calling into the Buf: it is h3 code and may panic)
        let (pend_den, partial) = {
            let n = net.lock().unwrap();
            (n.cfg.write_pend_den, n.cfg.write_partial)
        };
        let mut total = 0usize;
        while w.has_remaining() {
            {
                let mut n = net.lock().unwrap();
                if let Some(f) = n.sides[side as usize].fault.clone() {
                    runaway!(n, "a write");
                    return Poll::Ready(Err(f.to_stream()));
                }
                if n.dirs.get(&(id, side)).map(|d| d.stop_delivered || d.reset_sent.is_some() || d.fin_sent).unwrap_or(false) {
                    runaway!(n, "a write on a stopped or closed stream");
                }
                let d = n.dirs.get_mut(&(id, side)).unwrap();
                if d.inject_write_err {
                    d.inject_write_err = false;
                    obs::count("fault.stream_write_unknown_error");
                    return Poll::Ready(Err(StreamErrorIncoming::Unknown(Box::new(SimErr("injected write error")))));
                }
                if d.stop_delivered {
                    return Poll::Ready(Err(StreamErrorIncoming::StreamTerminated { error_code: d.stop_sent.unwrap() }));
                }
                if d.reset_sent.is_some() || d.fin_sent {
                    return Poll::Ready(Err(StreamErrorIncoming::Unknown(Box::new(SimErr("write on closed stream")))));
                }
                let pend = d.tx_stalled || (pend_den > 0 && draw(pend_den) == pend_den - 1);
                if pend {
                    if one_shot && total > 0 {
                        return Poll::Ready(Ok(total));
                    }
                    d.tx_blocked = true;
                    d.tx_waker = Some(cx.waker().clone());
                    obs::count("net.write_pended");
                    obs::ev("write_pend", id, 0);
                    return Poll::Pending;
                }
            }
            let clen = w.chunk().len();
            debug_assert!(clen > 0, "Buf contract: chunk() empty while remaining() > 0");
            if clen == 0 {
                net.lock().unwrap().contract.push(format!("stream {id}: chunk() empty while remaining()={} ", w.remaining()));
                return Poll::Ready(Err(StreamErrorIncoming::Unknown(Box::new(SimErr("empty chunk")))));
            }
            let bytes: Vec<u8> = if partial {
                match draw(3) {
                    0 | 1 => {
                        let k = draw_size(clen);
                        if k < clen {
                            obs::count("net.write_partial_chunk");
                        }
                        let b = w.chunk()[..k].to_vec();
                        w.advance(k);
                        b
                    }
                    _ => {
                        // copy across chunk boundaries (header/payload boundary included)
                        let k = draw_size(w.remaining());
                        obs::count("net.write_copy_to_bytes");
                        w.copy_to_bytes(k).to_vec()
                    }
                }
            } else {
                let b = w.chunk().to_vec();
                w.advance(clen);
                b
            };
            total += bytes.len();
            let mut n = net.lock().unwrap();
            obs::ev("write", id, bytes.len() as u64);
            if n.dirs.get(&(id, side)).map(|d| d.sent.len()).unwrap_or(0) > (512 << 10) {
                // no scenario writes that much on one stream: a write buffer whose remaining() never reaches 0
                n.contract.push(format!("stream {id}: more than 512 KiB written on one stream (a write that never completes)"));
                return Poll::Ready(Err(StreamErrorIncoming::Unknown(Box::new(SimErr("runaway write")))));
            }
            n.dirs.get_mut(&(id, side)).unwrap().sent.extend_from_slice(&bytes);
            if one_shot {
                return Poll::Ready(Ok(total));
            }
        }
        Poll::Ready(Ok(total))
    }
}

impl quic::SendStream<SimBuf> for SimSend {
    fn poll_ready(&mut self, cx: &mut Context<'_>) -> Poll<Result<(), StreamErrorIncoming>> {
        if let Some(w) = self.writing.as_mut() {
            match SimSend::accept_bytes(&self.net, self.id, self.side, w, cx, false) {
                Poll::Pending => return Poll::Pending,
                Poll::Ready(Err(e)) => {
                    self.writing = None;
                    return Poll::Ready(Err(e));
                }
                Poll::Ready(Ok(_)) => {}
            }
        }
        self.writing = None;
        Poll::Ready(Ok(()))
    }
    fn send_data<T: Into<WriteBuf<SimBuf>>>(&mut self, d: T) -> Result<(), StreamErrorIncoming> {
        if self.writing.is_some() {
            self.net.lock().unwrap().contract.push(format!("stream {}: send_data while a write is unfinished", self.id));
            return Err(StreamErrorIncoming::ConnectionErrorIncoming { connection_error: ConnectionErrorIncoming::InternalError("overlapping send_data".into()) });
        }
        let first = self.net.lock().unwrap().dirs.get(&(self.id, self.side)).map(|d| d.sent.is_empty() && !d.first_frame_seen).unwrap_or(false);
        if first {
            self.net.lock().unwrap().dirs.get_mut(&(self.id, self.side)).unwrap().first_frame_seen = true;
            // the moment h3 commits its first frame on this stream to the transport
            FIRST_WRITE_HOOK.with(|h| {
                if let Some(f) = h.borrow().as_ref() {
                    f(self.id)
                }
            });
        }
        self.writing = Some(d.into());
        Ok(())
    }
    fn poll_finish(&mut self, _cx: &mut Context<'_>) -> Poll<Result<(), StreamErrorIncoming>> {
        let mut n = self.net.lock().unwrap();
        if let Some(f) = &n.sides[self.side as usize].fault {
            return Poll::Ready(Err(f.to_stream()));
        }
        if self.writing.is_some() {
            n.contract.push(format!("stream {}: poll_finish while a write is unfinished", self.id));
        }
        let d = n.dirs.get_mut(&(self.id, self.side)).unwrap();
        d.finish_calls += 1;
        if d.stop_delivered {
            return Poll::Ready(Err(StreamErrorIncoming::StreamTerminated { error_code: d.stop_sent.unwrap() }));
        }
        if d.reset_sent.is_none() {
            d.fin_sent = true;
        }
        obs::ev("finish", self.id, 0);
        Poll::Ready(Ok(()))
    }
    fn reset(&mut self, code: u64) {
        let mut n = self.net.lock().unwrap();
        let d = n.dirs.get_mut(&(self.id, self.side)).unwrap();
        d.reset_calls.push(code);
        obs::ev("reset", self.id, code);
        if d.reset_sent.is_none() && !d.fin_delivered {
            d.reset_sent = Some(code);
        }
    }
    fn send_id(&self) -> StreamId {
        StreamId::try_from(self.id).unwrap()
    }
}
impl quic::SendStreamUnframed<SimBuf> for SimSend {
    fn poll_send<D: Buf>(&mut self, cx: &mut Context<'_>, buf: &mut D) -> Poll<Result<usize, StreamErrorIncoming>> {
        if self.writing.is_some() {
            self.net.lock().unwrap().contract.push(format!("stream {}: poll_send while a framed write is unfinished", self.id));
        }
        if !buf.has_remaining() {
            return Poll::Ready(Ok(0));
        }
        SimSend::accept_bytes(&self.net, self.id, self.side, buf, cx, true)
    }
}
impl Drop for SimSend {
    fn drop(&mut self) {
        if let Ok(mut n) = self.net.lock() {
            let mode = n.cfg.drop_send;
            let d = n.dirs.get_mut(&(self.id, self.side)).unwrap();
            d.send_dropped = true;
            if !d.fin_sent && d.reset_sent.is_none() {
                match mode {
                    1 => {
                        d.reset_sent = Some(0);
                        obs::ev("drop_send_reset", self.id, 0);
                    }
                    2 => {
                        d.fin_sent = true;
                        obs::ev("drop_send_fin", self.id, 0);
                    }
                    _ => {}
                }
            }
        }
    }
}

impl quic::RecvStream for SimRecv {
    type Buf = SimBuf;
    fn poll_data(&mut self, cx: &mut Context<'_>) -> Poll<Result<Option<SimBuf>, StreamErrorIncoming>> {
        let mut n = self.net.lock().unwrap();
        let coalesce = n.cfg.coalesce_reads;
        let segmented = n.cfg.segmented_reads;
        let reset_then_end = n.cfg.reset_then_end;
        let fault = n.sides[self.side as usize].fault.clone();
        let d = n.dirs.get_mut(&(self.id, 1 - self.side)).unwrap();
        if d.inject_read_err {
            d.inject_read_err = false;
            obs::count("fault.stream_read_unknown_error");
            return Poll::Ready(Err(StreamErrorIncoming::Unknown(Box::new(SimErr("injected read error")))));
        }
        if let Some(b) = d.rx.pop_front() {
            let b = if coalesce && !d.rx.is_empty() {
                let mut v = b.to_vec();
                while let Some(x) = d.rx.pop_front() {
                    v.extend_from_slice(&x);
                }
                obs::count("net.read_coalesced");
                Bytes::from(v)
            } else {
                b
            };
            d.consumed += b.len();
            obs::ev("read", self.id, b.len() as u64);
            if segmented && b.len() >= 2 && draw(2) == 1 {
                let cut = 1 + draw_usize(b.len() - 1);
                obs::count("net.read_in_two_segments");
                return Poll::Ready(Ok(Some(SimBuf::multi(&b, &[cut]))));
            }
            return Poll::Ready(Ok(Some(SimBuf::One(b))));
        }
        // every answer from here on is terminal or Pending; a caller that keeps asking an ended stream without ever
        // returning is spinning inside one poll, which no step cap can interrupt: break out of it with a panic that
        // the executors report as the caller's (exec::PanicInfo::in_harness knows the marker)
        if d.reset_delivered || d.fin_delivered {
            d.terminal_reads += 1;
            if d.terminal_reads > 20_000 {
                let id = self.id;
                drop(n);
                panic!("RUNAWAY: stream {id} was read 20000 times after it had reported its end (busy loop in the caller)");
            }
        }
        if let Some(f) = &d.read_conn_err {
            obs::count("fault.connection_error_reported_on_a_stream_first");
            return Poll::Ready(Err(f.to_stream()));
        }
        if d.reset_delivered {
            if reset_then_end && d.reset_reported {
                obs::count("net.read_after_reported_reset_answered_end_of_stream");
                return Poll::Ready(Ok(None));
            }
            d.reset_reported = true;
            return Poll::Ready(Err(StreamErrorIncoming::StreamTerminated { error_code: d.reset_sent.unwrap() }));
        }
        if d.fin_delivered {
            d.fin_read = true;
            if d.terminal_reads <= 8 {
                obs::ev("read_fin", self.id, 0);
            }
            return Poll::Ready(Ok(None));
        }
        if let Some(f) = fault {
            return Poll::Ready(Err(f.to_stream()));
        }
        d.rx_waker = Some(cx.waker().clone());
        Poll::Pending
    }
    fn stop_sending(&mut self, code: u64) {
        let mut n = self.net.lock().unwrap();
        let d = n.dirs.get_mut(&(self.id, 1 - self.side)).unwrap();
        d.stop_calls.push(code);
        obs::ev("stop_sending", self.id, code);
        if d.stop_sent.is_none() {
            d.stop_sent = Some(code);
        }
    }
    fn recv_id(&self) -> StreamId {
        StreamId::try_from(self.id).unwrap()
    }
}
impl Drop for SimRecv {
    fn drop(&mut self) {
        if let Ok(mut n) = self.net.lock() {
            let stops = n.cfg.drop_recv_stops;
            let d = n.dirs.get_mut(&(self.id, 1 - self.side)).unwrap();
            d.recv_dropped = true;
            if stops && d.stop_sent.is_none() && !d.fin_read && !d.reset_delivered {
                d.stop_sent = Some(0);
                obs::ev("drop_recv_stop", self.id, 0);
            }
        }
    }
}

impl quic::RecvStream for SimBidi {
    type Buf = SimBuf;
    fn poll_data(&mut self, cx: &mut Context<'_>) -> Poll<Result<Option<SimBuf>, StreamErrorIncoming>> {
        self.recv.poll_data(cx)
    }
    fn stop_sending(&mut self, c: u64) {
        self.recv.stop_sending(c)
    }
    fn recv_id(&self) -> StreamId {
        self.recv.recv_id()
    }
}
impl quic::SendStream<SimBuf> for SimBidi {
    fn poll_ready(&mut self, cx: &mut Context<'_>) -> Poll<Result<(), StreamErrorIncoming>> {
        self.send.poll_ready(cx)
    }
    fn send_data<T: Into<WriteBuf<SimBuf>>>(&mut self, d: T) -> Result<(), StreamErrorIncoming> {
        self.send.send_data(d)
    }
    fn poll_finish(&mut self, cx: &mut Context<'_>) -> Poll<Result<(), StreamErrorIncoming>> {
        self.send.poll_finish(cx)
    }
    fn reset(&mut self, c: u64) {
        self.send.reset(c)
    }
    fn send_id(&self) -> StreamId {
        self.send.send_id()
    }
}
impl quic::SendStreamUnframed<SimBuf> for SimBidi {
    fn poll_send<D: Buf>(&mut self, cx: &mut Context<'_>, buf: &mut D) -> Poll<Result<usize, StreamErrorIncoming>> {
        self.send.poll_send(cx, buf)
    }
}
impl quic::BidiStream<SimBuf> for SimBidi {
    type SendStream = SimSend;
    type RecvStream = SimRecv;
    fn split(self) -> (SimSend, SimRecv) {
        (self.send, self.recv)
    }
}
impl quic::Is0rtt for SimBidi {
    fn is_0rtt(&self) -> bool {
        false
    }
}
impl quic::Is0rtt for SimRecv {
    fn is_0rtt(&self) -> bool {
        false
    }
}

// ------------------------------------------------------------------ datagram extension

pub struct SimDgramSend {
    net: Shared,
    side: u8,
}
pub struct SimDgramRecv {
    net: Shared,
    side: u8,
}
impl h3_datagram::quic_traits::DatagramConnectionExt<SimBuf> for SimConn {
    type SendDatagramHandler = SimDgramSend;
    type RecvDatagramHandler = SimDgramRecv;
    fn send_datagram_handler(&self) -> SimDgramSend {
        SimDgramSend { net: self.net.clone(), side: self.side }
    }
    fn recv_datagram_handler(&self) -> SimDgramRecv {
        SimDgramRecv { net: self.net.clone(), side: self.side }
    }
}
impl h3_datagram::quic_traits::SendDatagram<SimBuf> for SimDgramSend {
    fn send_datagram<T: Into<h3_datagram::datagram::EncodedDatagram<SimBuf>>>(&mut self, data: T) -> Result<(), h3_datagram::quic_traits::SendDatagramErrorIncoming> {
        use h3_datagram::quic_traits::SendDatagramErrorIncoming as E;
        let mut enc = data.into();
        {
            let n = self.net.lock().unwrap();
            if let Some(f) = &n.sides[self.side as usize].fault {
                return Err(E::ConnectionError(f.to_h3()));
            }
            if enc.remaining() > n.cfg.max_datagram {
                return Err(E::TooLarge);
            }
        }
        // drawn consumption style of the encoded buffer
        let mut out = Vec::with_capacity(enc.remaining());
        match draw(4) {
            0 => {
                while enc.has_remaining() {
                    let c = enc.chunk().to_vec();
                    enc.advance(c.len());
                    out.extend(c);
                }
            }
            1 => {
                let n = enc.remaining();
                out.extend_from_slice(&enc.copy_to_bytes(n));
            }
            2 => {
                while enc.has_remaining() {
                    out.push(enc.chunk()[0]);
                    enc.advance(1);
                }
                obs::count("net.dgram_consumed_bytewise");
            }
            _ => {
                while enc.has_remaining() {
                    let k = draw_size(enc.chunk().len());
                    out.extend_from_slice(&enc.chunk()[..k]);
                    enc.advance(k);
                }
                obs::count("net.dgram_consumed_drawn");
            }
        }
        let mut n = self.net.lock().unwrap();
        obs::ev("dgram_send", self.side as u64, out.len() as u64);
        n.dgram_sent[self.side as usize].push(out.clone());
        n.dgram_flight[1 - self.side as usize].push_back(Bytes::from(out));
        Ok(())
    }
}
impl h3_datagram::quic_traits::RecvDatagram for SimDgramRecv {
    // the trait leaves the buffer type to the transport: half of the datagrams of two or more bytes are handed
    // over as a buffer of two segments, cut at a drawn point (possibly inside the quarter stream id varint)
    type Buffer = SimBuf;
    fn poll_incoming_datagram(&mut self, cx: &mut Context<'_>) -> Poll<Result<SimBuf, ConnectionErrorIncoming>> {
        let mut n = self.net.lock().unwrap();
        let st = &mut n.sides[self.side as usize];
        if let Some(b) = st.dgram_rx.pop_front() {
            if b.len() >= 2 && draw(2) == 1 {
                let cut = 1 + draw_usize(b.len() - 1);
                obs::count("net.dgram_received_in_two_segments");
                return Poll::Ready(Ok(SimBuf::multi(&b, &[cut])));
            }
            return Poll::Ready(Ok(SimBuf::One(b)));
        }
        if let Some(f) = &st.fault {
            return Poll::Ready(Err(f.to_h3()));
        }
        st.dgram_waker = Some(cx.waker().clone());
        Poll::Pending
    }
}

/// Receive handle for `side` on stream `id` without going through accept (for harnesses that test a
/// single stream).
pub fn recv_handle(net: &Shared, id: u64, side: u8) -> SimRecv {
    net.lock().unwrap().dir(id, 1 - side);
    SimRecv { net: net.clone(), id, side }
}
pub fn send_handle(net: &Shared, id: u64, side: u8) -> SimSend {
    net.lock().unwrap().dir(id, side);
    SimSend { net: net.clone(), id, side, writing: None }
}
pub fn bidi_handle(net: &Shared, id: u64, side: u8) -> SimBidi {
    {
        let mut n = net.lock().unwrap();
        n.dir(id, side);
        n.dir(id, 1 - side);
    }
    mk_bidi(net, id, side)
}
